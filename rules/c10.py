"""C10 — timestamp encoding is lossless and order-preserving; parsing never panics.  DESIGN §5 C10."""
from analysis import *  # noqa
from facts import strip_generics, op_local, op_const, const_int, last_seg
from engine import site
import bits
import panics
import c04

CONFIGS = ['prod']
EXPLANATION = (
    'E8: the reader and the writer of the text form consult nothing but their input (no clock, environment or shared state reachable from from_str / fmt). '
    'E7: every constructor of the timestamp module that packs a caller-supplied Duration passes, before the packer, the admitting edge of a comparison of the whole seconds with a constant whose largest admitted value is exactly 2^32 - 1 (or a checked narrowing to u32). '
    'SEM (primary): HLCTimestamp::new interpreted with symbolic field bits gives the word layout (tiling, significance order), every accessor hands back ex'
    'actly its field bits, identities, the fraction round-trips at the division constant; E3 writer and reader by interpretation (printed value -> field bits; piece -> radix -> type -> field). St'
    'ructural fallback / remaining clauses: '
    'Decided clauses: E1 bit-exact layout agreement between the packer and every accessor by abstract interpretation over 64 abstract '
    'bits (fields tile the word without overlap or gap; accessor∘pack is the identity on each field\'s full width; significance order '
    'seconds > fractional > counter > node; archived cast is the identity on the word); E2 the order is the derived order of the single '
    'word (=C04.T1); E3 text form: writer (Display) and reader (FromStr) agree on arity, field order, radix and width per field; '
    'E5 the 4 ms fraction is computed with one resolution constant on both sides (divide when packing, multiply when unpacking, same unit) and fits its 8 bits; '
    'E4 no may-panic site is reachable from HLCTimestamp::from_str or from the SQLite row decoders, which convert the parse error; '
    'E6 the text form (seconds not zero-padded, so not order-preserving) is never compared or ordered by an SQL statement. '
    'NOT decided: rkyv round trip beyond cast; that every Duration maps to the intended 4 ms bucket.')
ASSUMPTIONS = ['foreign callees not in rules/tables.py MAY_PANIC are assumed panic-free (std parse/from_str_radix with constant radix, rusqlite Row::get)']

T = 'datacake_crdt::timestamp::'
HT = T + 'HLCTimestamp::'
FIELD_W = {'seconds': 32, 'fractional': 8, 'counter': 16, 'node': 8}


def find_packer(facts):
    """the function that assembles the packed word from the four parts with shifts/ors: straight-line, returns u64,
    contains Shl and BitOr.  Parts come from parameters and/or duration_to_parts()."""
    cands = []
    for b in facts.bodies.values():
        if b.crate != 'datacake_crdt' or b.d['promoted'] or b.kind not in ('fn', 'method'):
            continue
        if b.local_ty(0) != 'u64':
            continue
        ops = [s['rv']['op'] for _b, _j, s in b.assigns() if s['rv']['k'] == 'bin']
        if any(o.startswith('Shl') for o in ops) and 'BitOr' in ops:
            cands.append(b)
    return cands


def eval_packer(facts, body):
    names = body.local_names()
    inputs = {}
    for i in range(1, body.argc + 1):
        w = bits.width_of(body.local_ty(i))
        nm = names.get(i, 'arg%d' % i)
        if w:
            inputs[i] = bits.inp(nm, w)

    def call_model(name, t, args):
        if name == T + 'duration_to_parts':
            return {'tuple': [bits.inp('seconds', 64), bits.inp('fractional', 8)]}
        return bits.std_call_model(name, t, args)

    def place_model(pl, st):
        v = st.get(pl['l'])
        if isinstance(v, dict) and 'tuple' in v and len(pl['p']) == 1 and isinstance(pl['p'][0], dict) and 'f' in pl['p'][0]:
            return v['tuple'][pl['p'][0]['f']]
        return None
    return bits.run(body, inputs, call_model, place_model)


def eval_accessor(body):
    def place_model(pl, st):
        if pl['l'] == 1 and len(pl['p']) == 2 and pl['p'][0] == '*' and isinstance(pl['p'][1], dict) and pl['p'][1].get('f') == 0:
            return bits.inp('word', 64)
        return None
    inputs = {}
    if body.argc >= 1 and body.local_ty(1) == 'u64':
        inputs[1] = bits.inp('word', 64)
    return bits.run(body, inputs, bits.std_call_model, place_model)


def check_E1(ctx, facts):
    packers = find_packer(facts)
    if not packers:
        ctx.bad('C10.E1', 'packer', '', 'no function assembling the packed word found (fail closed)')
        return
    layout = None
    for pk in packers:
        try:
            out = eval_packer(facts, pk)
        except bits.NotStraightLine as e:
            ctx.bad('C10.E1', 'packer|%s' % last_seg(pk.name), site(pk), 'packer is not straight-line code: %s (fail closed)' % e)
            continue
        pos = {}
        problems = []
        for j, bt in enumerate(out):
            if isinstance(bt, tuple):
                pos.setdefault(bt[0], {})[bt[1]] = j
            elif bt == bits.TOPB:
                problems.append('bit %d is the OR of two different field bits (overlap)' % j)
            else:
                problems.append('bit %d is the constant %s (gap)' % (j, bt))
        for f, w in FIELD_W.items():
            got = pos.get(f, {})
            if sorted(got) != list(range(w)):
                problems.append('field %s: bits %s of it are stored, expected exactly 0..%d' % (f, sorted(got)[:3] + ['..'] if got else [], w - 1))
            elif [got[i] for i in range(w)] != list(range(got[0], got[0] + w)):
                problems.append('field %s is not stored contiguously in order' % f)
        extra = set(pos) - set(FIELD_W)
        if extra:
            problems.append('unknown inputs packed: %s' % sorted(extra))
        if not problems:
            order = sorted(FIELD_W, key=lambda f: -pos[f][0])
            if order != ['seconds', 'fractional', 'counter', 'node']:
                problems.append('significance order is %s, must be seconds > fractional > counter > node (comparison of the word must agree with (time, counter, node))' % order)
        key = 'packer|%s' % last_seg(pk.name)
        if problems:
            ctx.bad('C10.E1', key, site(pk), '; '.join(problems[:4]))
        else:
            layout = {f: pos[f][0] for f in FIELD_W}
            ctx.ok('C10.E1', key, site(pk), 'fields tile the 64-bit word: %s' % {f: (layout[f], layout[f] + FIELD_W[f] - 1) for f in FIELD_W}, {'layout': layout})
    if layout is None:
        return
    # accessors
    n = 0
    for f, w in FIELD_W.items():
        ab = facts.body(HT + f)
        if ab is None:
            ctx.bad('C10.E1', 'accessor|' + f, '', 'accessor %s() not found' % f)
            continue
        try:
            out = eval_accessor(ab)
        except bits.NotStraightLine as e:
            ctx.bad('C10.E1', 'accessor|' + f, site(ab), 'accessor is not straight-line: %s' % e)
            continue
        n += 1
        want = [('word', layout[f] + j) for j in range(w)] + [0] * (64 - w)
        if f == 'seconds':
            pass
        good = out == want
        ctx.ob('C10.E1', 'accessor|' + f, good, site(ab),
               '%s() returns word bits %d..%d, the bits the packer stores %s in' % (f, layout[f], layout[f] + w - 1, f) if good else
               '%s() returns %s, but the packer stores %s in word bits %d..%d: a packed timestamp does not read back the field that was written'
               % (f, describe(out), f, layout[f], layout[f] + w - 1))
    for name_ in ('as_u64', 'from_u64'):
        ab = facts.body(HT + name_)
        if ab is None:
            ctx.bad('C10.E1', 'identity|' + name_, '', '%s not found' % name_)
            continue
        try:
            out = eval_accessor(ab)
            good = out == bits.inp('word', 64)
        except bits.NotStraightLine:
            good = False
        n += 1
        ctx.ob('C10.E1', 'identity|' + name_, good, site(ab), '%s is the identity on the packed word' % name_ if good else '%s alters the packed word' % name_)
    cast = facts.body(T + 'ArchivedHLCTimestamp::cast')
    if cast is not None:
        try:
            out = eval_accessor(cast)
            good = out == bits.inp('word', 64)
        except bits.NotStraightLine:
            good = False
        n += 1
        ctx.ob('C10.E1', 'identity|ArchivedHLCTimestamp::cast', good, site(cast),
               'archived cast is the identity on the word' if good else 'archived cast alters the word')
    else:
        ctx.bad('C10.E1', 'identity|ArchivedHLCTimestamp::cast', '', 'ArchivedHLCTimestamp::cast not found')
    ctx.floor('C10.E1', 'accessors evaluated', n, 7)
    # wrappers: functions whose u64 result is the packer's result; their argument routing must agree by name
    family = {p.name for p in packers}
    for b in facts.bodies.values():
        if b.crate != 'datacake_crdt' or b.d['promoted'] or b.local_ty(0) != 'u64' or b.name in family:
            continue
        for blk, t in b.calls():
            if cname(t) in family and t['dest']['l'] == 0 and not t['dest']['p']:
                pk = facts.body(cname(t))
                pnames = pk.local_names()
                wnames = b.local_names()
                flow = Flow(b)
                parts_calls = {tt['dest']['l']: tt for _bb, tt in b.calls() if cname(tt) == T + 'duration_to_parts'}
                dtp = facts.body(T + 'duration_to_parts')
                tuple_names = {}
                if dtp is not None:
                    dflow = Flow(dtp)
                    for _b, _j, s in dtp.assigns():
                        if s['lhs']['l'] == 0 and s['rv']['k'] == 'aggregate' and s['rv']['agg'] == 'tuple':
                            for i, o in enumerate(s['rv']['ops']):
                                back = dflow.backward([op_local(o)])
                                for _bb, tt in dtp.calls():
                                    if tt['dest']['l'] in back:
                                        if cname(tt) == 'core::time::Duration::as_secs':
                                            tuple_names[i] = 'seconds'
                                        elif cname(tt) == 'core::time::Duration::subsec_millis':
                                            tuple_names[i] = 'fractional'
                good = True
                detail = []
                for i, a in enumerate(t['args']):
                    want = pnames.get(i + 1)
                    l = op_local(a)
                    got = None
                    cur = l
                    for _ in range(4):
                        if cur in wnames and cur <= b.argc:
                            got = wnames[cur]
                            break
                        d = [s for _b, _j, s in b.assigns() if s['lhs']['l'] == cur and not s['lhs']['p']]
                        if len(d) != 1 or d[0]['rv']['k'] != 'use':
                            break
                        pl = op_place(d[0]['rv']['op'])
                        if pl is None:
                            break
                        if pl['p'] and pl['l'] in parts_calls and isinstance(pl['p'][0], dict) and 'f' in pl['p'][0]:
                            got = tuple_names.get(pl['p'][0]['f'])
                            break
                        if pl['p']:
                            break
                        cur = pl['l']
                    detail.append('%s<-%s' % (want, got))
                    if want != got:
                        good = False
                family.add(b.name)
                ctx.ob('C10.E1', 'wrapper|%s' % last_seg(b.name), good, site(b, t['cs']),
                       'wrapper %s routes its parts to the packer by the same names (%s)' % (last_seg(b.name), ', '.join(detail)) if good else
                       'wrapper %s hands the packer the wrong part: %s' % (last_seg(b.name), ', '.join(detail)))
    check_writers(ctx, facts, family)


def check_writers(ctx, facts, family, family_inlined=()):
    # every writer of the word: HLCTimestamp aggregates outside the packer-fed ones
    writers = 0
    for b in facts.bodies.values():
        if b.crate != 'datacake_crdt' or b.d['promoted'] or b.derived:
            continue
        for blk, j, s in b.assigns():
            rv = s['rv']
            if rv['k'] == 'aggregate' and rv.get('agg') == 'adt' and strip_generics(rv['adt']) == T + 'HLCTimestamp':
                writers += 1
                l = op_local(rv['ops'][0])
                src_ok = False
                if l is not None:
                    back = Flow(b).backward([l])
                    for _bb, t in b.calls():
                        if t['dest']['l'] in back and cname(t) and (cname(t) in family or cname(t).startswith('rend::')):
                            src_ok = True
                    if any(x in back for x in range(1, b.argc + 1)) and b.name in (HT + 'from_u64',):
                        src_ok = True
                    # an extracted helper that was inlined at load (normalize.py): the same helper the constructor packs with
                    if any(s_.get('inl') in family_inlined for _b2, _j2, s_ in b.assigns() if s_['lhs']['l'] in back):
                        src_ok = True
                    if 'rkyv::' in (b.impl or ''):
                        src_ok = True
                ctx.ob('C10.E1', 'writer|%s' % b.name.replace('datacake_crdt::timestamp::', ''), src_ok, site(b, s['cs']),
                       'word written here comes from the packer / the raw-word constructor / the archived form' if src_ok else
                       'a packed word is built here by something other than the packer: its layout is not checked')
    ctx.floor('C10.E1', 'writers of the packed word', writers, 3)


def describe(out):
    src = [b for b in out if isinstance(b, tuple)]
    if not src:
        return 'constant/unknown bits'
    return 'word bits %d..%d (x%d)' % (src[0][1], src[-1][1], len(src))


FMT_KIND = {'new_display': ('dec', 10), 'new_upper_hex': ('hex', 16), 'new_lower_hex': ('hex', 16),
            'new_octal': ('oct', 8), 'new_binary': ('bin', 2), 'new_debug': ('dec', 10)}


def check_E3(ctx, facts):
    fmt = facts.body('<datacake_crdt::timestamp::HLCTimestamp as core::fmt::Display>::fmt')
    fs = facts.body('<datacake_crdt::timestamp::HLCTimestamp as core::str::traits::FromStr>::from_str')
    if fmt is None or fs is None:
        ctx.bad('C10.E3', 'anchors', '', 'Display::fmt / FromStr::from_str of HLCTimestamp not found (fail closed)')
        return
    # writer
    flow = Flow(fmt)
    writer = []
    order = sorted([(b, t) for b, t in fmt.calls() if cname(t) and cname(t).startswith('core::fmt::rt::Argument::new_')],
                   key=lambda x: len(fmt.dominators().get(x[0], ())))
    # tuple of refs: which accessor feeds tuple position i
    acc_of_local = {}
    for b, t in fmt.calls():
        n = cname(t)
        if n and n.startswith(HT):
            acc_of_local[t['dest']['l']] = n[len(HT):]
    for b, t in order:
        kind = cname(t).rsplit('::', 1)[1]
        ty = (t.get('gargs') or [None, None])[-1]
        # the argument is `&(*_5.i)`: find the tuple field index, then the ref stored there
        a = op_local(t['args'][0])
        fld = None
        for _b, _j, s in fmt.assigns():
            if s['lhs']['l'] == a and s['rv']['k'] == 'ref':
                pl = s['rv']['pl']
                idx = [e['f'] for e in pl['p'] if isinstance(e, dict) and 'f' in e]
                tup = pl['l']
                for _b2, _j2, s2 in fmt.assigns():
                    if s2['lhs']['l'] == tup and s2['rv']['k'] == 'aggregate' and idx:
                        rl = op_local(s2['rv']['ops'][idx[0]])
                        for l3 in flow.backward([rl]):
                            if l3 in acc_of_local:
                                fld = acc_of_local[l3]
        writer.append({'field': fld, 'radix': FMT_KIND.get(kind, (kind, None))[1], 'ty': ty, 'line': t['cs']})
    # reader
    rflow = Flow(fs)
    nexts = sorted([(b, t) for b, t in fs.calls() if cname(t) == 'core::iter::traits::iterator::Iterator::next'],
                   key=lambda x: len(fs.dominators().get(x[0], ())))
    reader = []
    for b, t in nexts:
        fw = rflow.forward([t['dest']['l']], stop=[0])
        radix = ty = None
        for b2, t2 in fs.calls():
            if cname(t2) in ('core::option::Option::and_then', 'core::option::Option::map') and op_local(t2['args'][0]) in fw:
                cdef = None
                for _b3, _j3, s3 in fs.assigns():
                    if s3['lhs']['l'] == op_local(t2['args'][1]) and s3['rv']['k'] == 'aggregate':
                        cdef = s3['rv']['def']
                cb = facts.bodies.get(cdef) if cdef else None
                if cb:
                    for _b4, t4 in cb.calls():
                        n4 = cname(t4)
                        if n4 == 'core::str::<impl str>::parse':
                            radix, ty = 10, (t4.get('gargs') or [None])[-1]
                        elif n4 and n4.endswith('::from_str_radix'):
                            radix = const_int(t4['args'][1])
                            m = re.search(r'<impl (u\d+)>', n4)
                            ty = m.group(1) if m else None
        # which field it feeds: parameter name of the workspace callee that receives the parsed value
        fld = None
        val_locals = set()
        for b5, j5, s5 in fs.assigns():
            if s5['rv']['k'] == 'use':
                pl = op_place(s5['rv']['op'])
                if pl and pl['l'] in fw and any(isinstance(e, dict) and e.get('n') == 'Continue' for e in pl['p']):
                    val_locals |= rflow.forward([s5['lhs']['l']], stop=[0])
        for b6, t6 in fs.calls():
            n6 = cname(t6)
            if n6 and n6.startswith(T):
                cb = facts.body(n6)
                if cb is None:
                    continue
                pn = cb.local_names()
                for i, a in enumerate(t6['args']):
                    l = op_local(a)
                    if l is not None and l in val_locals and not (set(rflow.backward([l])) & {tt['dest']['l'] for _, tt in fs.calls() if cname(tt) and cname(tt).startswith(T)}):
                        fld = fld or pn.get(i + 1)
        reader.append({'field': fld, 'radix': radix, 'ty': ty, 'line': t['cs']})
    # the reader by interpretation (bits_abs): which piece, parsed with which radix into which integer type, lands in which field
    split_done = False
    try:
        import bits_abs, absint as _ai
        layout = {'seconds': 32, 'fractional': 24, 'counter': 8, 'node': 0}
        lay_obs = [o for o in ctx.obs if o.rule == 'C10.SEM' and o.key == 'layout|new' and o.ok]
        if lay_obs:
            try:
                wr = bits_abs.writer_by_interpretation(facts, fmt, layout, strip_generics(T + 'HLCTimestamp'))
                if len(wr) == len(writer):
                    writer = [dict(w, line=writer[i]['line']) for i, w in enumerate(wr)]
            except (_ai.Unmodelled, _ai.NeedChoice, _ai.PanicPath, IndexError, TypeError, KeyError, AttributeError, ValueError) as e:
                ctx.note = getattr(ctx, 'note', []) + ['C10.E3: writer not interpreted (%s); structural writer used' % e]
            by_piece, splits = bits_abs.reader_by_interpretation(facts, fs, layout)
            reader = [{'field': by_piece.get(i, (None, None, None))[0], 'radix': by_piece.get(i, (None, None, None))[1], 'ty': by_piece.get(i, (None, None, None))[2],
                       'line': fs.line} for i in range(max(by_piece) + 1)]
            # the reader's range checks: it must refuse exactly what the packer cannot produce (a fraction above the largest
            # sub-second step, seconds above 32 bits) — an accepted out-of-range field reads back as another time
            bnds = getattr(bits_abs.reader_by_interpretation, 'bounds', {})
            piece_of = {v[0]: i for i, v in by_piece.items()}
            maxf = getattr(ctx, 'c10_max_fraction', None)
            for fld, want in (('fractional', maxf), ('seconds', (1 << 32) - 1)):
                if want is None or fld not in piece_of:
                    continue
                got = sorted(bnds.get('piece%d' % piece_of[fld], set()))
                if got:
                    got = [min(got)]          # (every bound is a necessary condition of acceptance: the tightest one decides)
                okb = got == [want]
                # a reader that parses the piece into an integer type whose largest value IS the bound needs no comparison
                rty = by_piece.get(piece_of[fld], (None, None, None))[2]
                if not got and rty in bits.INT_W and (1 << bits.INT_W[rty]) - 1 == want:
                    okb = True
                    got = [want]
                ctx.ob('C10.E3', 'reader-range|' + fld, okb, site(fs),
                       'the reader accepts %s up to %d, the largest value the packer produces' % (fld, want) if okb else
                       'the reader accepts %s up to %s, but the largest value the packer can produce is %d: a text with a larger field is accepted and denotes a '
                       'time that no constructor produces (it reads back as a different time / compares out of order)' % (fld, got or 'any value of its integer type', want))
            if len(splits) == 1:
                nsp, sep = next(iter(splits))
                ctx.ob('C10.E3', 'split', nsp == len(writer) and sep == 45, site(fs), 'reader splits into %s pieces on %r' % (nsp, chr(sep) if sep else sep))
                split_done = True
    except (_ai.Unmodelled, _ai.NeedChoice, IndexError, TypeError, KeyError, AttributeError, ValueError) as e:
        ctx.note = getattr(ctx, 'note', []) + ['C10.E3: reader not interpreted (%s); structural reader used' % e]
    ctx.ob('C10.E3', 'arity', len(writer) == len(reader) == 4, site(fs),
           'writer emits %d fields, reader parses %d (4 expected)' % (len(writer), len(reader)))
    # split arity
    for b, t in ([] if split_done else list(fs.calls())):
        if cname(t) == 'core::str::<impl str>::splitn':
            nsp = const_int(t['args'][1])
            sep = const_int(t['args'][2]) if len(t['args']) > 2 else None
            ctx.ob('C10.E3', 'split', nsp == len(writer) and sep == 45, site(fs, t['cs']),
                   'reader splits into %s pieces on %r' % (nsp, chr(sep) if sep else sep))
    for i, (w, r) in enumerate(zip(writer, reader)):
        wbits = bits.INT_W.get(w['ty'] or '', 0)
        rbits = bits.INT_W.get(r['ty'] or '', 0)
        # the reader's integer type must hold every value of the FIELD (32 | 8 | 16 | 8 bits); the writer may print it from a wider type
        fbits = {'seconds': 32, 'fractional': 8, 'counter': 16, 'node': 8}.get(w['field'] or '', wbits)
        good = w['field'] is not None and w['field'] == r['field'] and w['radix'] == r['radix'] and rbits >= min(wbits, fbits) > 0
        ctx.ob('C10.E3', 'field#%d' % i, good, site(fs, r['line']),
               'position %d: writer %s radix %s %s  /  reader %s radix %s %s%s' % (
                   i, w['field'], w['radix'], w['ty'], r['field'], r['radix'], r['ty'],
                   '' if good else ' — writer and reader disagree: printing then parsing is not the identity'))


def check_E4(ctx, facts):
    cg = CallGraph(facts)
    roots = [facts.body('<datacake_crdt::timestamp::HLCTimestamp as core::str::traits::FromStr>::from_str')]
    if roots[0] is None:
        ctx.bad('C10.E4', 'anchor', '', 'from_str not found')
        return
    found, seen = panics.reachable_panics(facts, cg, roots)
    # rustc-emitted checks (shift amount, index bound, overflow flag) on operands that do not depend on the text: from_str interpreted on
    # every path (pieces missing / unparsable / parsed to any number) — a check that saw only satisfied compile-time constants cannot fail
    if any(f[2].startswith('assert:') for f in found):
        try:
            import bits_abs, absint as _ai
            audit, npaths = bits_abs.from_str_assert_audit(facts, roots[0])
            kept = []
            for f in found:
                b_, line_, what_ = f[0], f[1], f[2]
                if what_.startswith('assert:') and audit.get((b_.file, line_, what_[7:])) == {'ok'}:
                    ctx.ok('C10.E4', 'from_str|%s|%s|constant-operands' % (b_.name.replace('datacake_crdt::timestamp::', ''), what_), site(b_, line_),
                           'this check sees only compile-time constants that satisfy it on all %d interpreted paths of from_str' % npaths)
                    continue
                kept.append(f)
            found = kept
        except (_ai.Unmodelled, _ai.NeedChoice, _ai.PanicPath, IndexError, TypeError, KeyError, AttributeError, ValueError) as e:
            ctx.note = getattr(ctx, 'note', []) + ['C10.E4: from_str not interpreted for the audit of rustc checks (%s)' % e]
    if not found:
        ctx.ok('C10.E4', 'from_str|no-panic', site(roots[0]),
               'no may-panic site reachable from HLCTimestamp::from_str (%d workspace bodies followed)' % len(seen),
               {'bodies': sorted(strip_generics(k) for k in seen)})
    for b, line, what, why, path in found:
        ctx.bad('C10.E4', 'from_str|%s|%s' % (b.name.replace('datacake_crdt::timestamp::', ''), what), site(b, line),
                'parsing can panic: %s (%s) reachable via %s' % (what, why, ' -> '.join(last_seg(p) for p in path)), {'path': list(path)})
    # SQLite row decoders
    rows = [b for b in facts.bodies.values() if b.crate == 'datacake_sqlite' and b.name.endswith('::from_row') and 'models::' in b.name]
    ctx.floor('C10.E4', 'SQLite row decoders', len(rows), 2)
    for rb in rows:
        flow = Flow(rb)
        calls = list(rb.calls())
        parse = [(b, t) for b, t in calls if cname(t) == 'core::str::traits::FromStr::from_str']
        key = rb.name.replace('datacake_sqlite::', '')
        if not parse:
            # the parse may sit in a helper of the crate (a column-codec trait, a shared decode function), called as `str::parse` or through FromStr
            deep = []
            for hb in cg.reach([rb], bound=4):
                if hb.crate != 'datacake_sqlite' or hb is rb:
                    continue
                for b_, t_ in hb.calls():
                    n_ = cname(t_) or ''
                    if n_ == 'core::str::traits::FromStr::from_str' or (n_ == 'core::str::<impl str>::parse' and any('HLCTimestamp' in g for g in (t_.get('gargs') or []))):
                        deep.append((hb, t_))
            if not deep:
                ctx.bad('C10.E4', key + '|parse', site(rb), 'row decoder does not parse the timestamp through FromStr (unrecognised idiom, fail closed)')
                continue
            ctx.ok('C10.E4', key + '|parse-in-helper', site(deep[0][0], deep[0][1]['cs']),
                   'the timestamp is parsed in %s; a panicking use of its result would show among the may-panic sites reachable from the row decoder' % last_seg(deep[0][0].name))
        for pb, pt in parse:
            fw = flow.forward([pt['dest']['l']], stop=[0])
            unw = [cname(t) for b, t in calls if cname(t) in tables.MAY_PANIC and t['args'] and op_local(t['args'][0]) in fw]
            re_ = ResultEdges(rb, flow, pb)
            good = not unw and re_.inspected and bool(re_.err)
            ctx.ob('C10.E4', key + '|parse-error-converted', good, site(rb, pt['cs']),
                   'timestamp parse error is converted and propagated' if good else 'timestamp parse result is unwrapped / not inspected: a bad row panics the storage task')
        f2, s2 = panics.reachable_panics(facts, cg, [rb])
        for b, line, what, why, path in f2:
            if b.crate == 'datacake_crdt':
                continue  # reported above under from_str
            ctx.bad('C10.E4', '%s|%s|%s' % (key, last_seg(b.name), what), site(b, line),
                    'row decoding can panic: %s (%s) via %s' % (what, why, ' -> '.join(last_seg(p) for p in path)))
        if not [x for x in f2 if x[0].crate != 'datacake_crdt']:
            ctx.ok('C10.E4', key + '|no-panic', site(rb), 'no may-panic site outside the timestamp parser reachable (%d bodies)' % len(s2))


def check_E5(ctx, facts):
    """the fraction's resolution constant agrees between Duration -> parts and parts -> Duration"""
    w = facts.body(T + 'duration_to_parts')
    r = facts.body(T + 'parts_as_duration')
    if w is None or r is None:
        ctx.bad('C10.E5', 'anchors', '', 'duration_to_parts / parts_as_duration not found (fail closed)')
        return
    wd = [const_int(s['rv']['b']) for _b, _j, s in w.assigns() if s['rv']['k'] == 'bin' and s['rv']['op'] == 'Div']
    rm = [const_int(s['rv']['b']) for _b, _j, s in r.assigns() if s['rv']['k'] == 'bin' and s['rv']['op'].startswith('Mul')]
    wu = [cname(t) for _b, t in w.calls() if cname(t) and cname(t).startswith('core::time::Duration::subsec_')]
    ru = [cname(t) for _b, t in r.calls() if cname(t) and cname(t).startswith('core::time::Duration::from_') and 'secs' not in cname(t)]
    unit_ok = [last_seg(x).replace('subsec_', '') for x in wu] == [last_seg(x).replace('from_', '') for x in ru]
    good = len(wd) == 1 and wd == rm and wd[0] is not None and unit_ok
    ctx.ob('C10.E5', 'fraction-resolution', good, site(r),
           'fraction = %s / %s when packing and fraction * %s %s when unpacking' % (wu, wd, rm, ru) if good else
           'packing divides %s by %s but unpacking multiplies by %s into %s: the time component does not round-trip at the stated resolution' % (wu, wd, rm, ru))
    # the divided quantity fits the field: (max sub-second value) / k <= 255
    if good and 'millis' in wu[0]:
        ctx.ob('C10.E5', 'fraction-fits-u8', 999 // wd[0] <= 255, site(w), 'largest fraction 999/%d = %d fits 8 bits' % (wd[0], 999 // wd[0]))


def check(ctx):
    facts = ctx.facts('prod')
    # SEM: the packed word by bit-vector interpretation from the public constructor and accessors (bits_abs): layout, significance
    # order, read-back of every field, identities, resolution of the fraction.  Subsumes E5 and the packer / accessor / wrapper part
    # of E1 (kept as fallback); the who-writes-the-word clause stays structural.
    import bits_abs
    if bits_abs.check_layout(ctx, facts, 'C10.SEM'):
        cg = CallGraph(facts)
        new = facts.body(HT + 'new')
        fam = {b.name for b in cg.reach([new], bound=4) if b.crate == 'datacake_crdt' and b.local_ty(0) == 'u64'} if new is not None else set()
        import inline as _inl
        fam_inl = set()
        if new is not None:
            for rb in cg.reach([new], bound=4):
                if rb.crate == 'datacake_crdt':
                    fam_inl |= {x for x in _inl.inlined_callees(rb)}
        check_writers(ctx, facts, fam, fam_inl)
    else:
        check_E5(ctx, facts)
        check_E1(ctx, facts)
    c04.check_T1(ctx, facts)
    for o in ctx.obs:
        if o.rule == 'C04.T1':
            o.rule = 'C10.E2'
    check_E3(ctx, facts)
    check_E4(ctx, facts)
    check_constructor_range(ctx, facts)
    check_text_pure(ctx, facts)
    # E6: the text form is a column format only — it does not order like the timestamps it denotes, so no SQL statement may compare it
    import c17
    c17.check_B8(ctx, facts, rule='C10.E6', only_compare=True)


def check_constructor_range(ctx, facts, rule='C10.E7'):
    """E7: a constructor that packs a caller-supplied time refuses seconds the seconds field cannot hold.  The packer shifts the seconds
    into the top 32 bits without looking at them: seconds at or above 2^32 are silently cut, the word then denotes an EARLIER time and
    orders below older stamps.  Every function of the timestamp module that takes a `Duration` and hands it (or anything derived from
    it) to the packer must therefore pass, before the packer is reached, the admitting edge of a comparison between the duration's whole
    seconds and a constant, and the largest value that edge admits must be exactly 2^32 - 1 (the layout C10.SEM establishes).
    (Round 6, C04f / C10f: TIMESTAMP_MAX raised to 34 bits "to match the documentation".)"""
    cap = (1 << 32) - 1
    pack_names = {T + 'pack', T + 'pack_parts'}
    found = 0
    for body in facts.bodies.values():
        if body.crate != 'datacake_crdt' or body.d['promoted'] or body.kind not in ('method', 'fn') or body.cfg is None or not body.name.startswith(T):
            continue
        dur_params = [i for i in range(1, body.argc + 1) if body.local_ty(i) == 'core::time::Duration']
        if not dur_params or body.name in pack_names:
            continue
        flow = Flow(body)
        calls = list(body.calls())
        packs = [(b, t) for b, t in calls if cname(t) in pack_names
                 and any(op_local(a) is not None and set(flow.backward([op_local(a)])) & set(dur_params) for a in t['args'])]
        if not packs:
            continue
        is_pub = True
        found += 1
        secs = set()
        for b, t in calls:
            if cname(t) == 'core::time::Duration::as_secs':
                secs |= set(flow.forward([t['dest']['l']], stop=[0]))
        admitted = []           # (block of the comparison, admitting target block, largest admitted value)
        for bi, blk in enumerate(body.blocks):
            cmp_of = {}
            for s in blk['s']:
                if s['k'] == 'assign' and s['rv']['k'] == 'bin' and s['rv']['op'] in ('Le', 'Lt', 'Gt', 'Ge') and not s['lhs']['p']:
                    a, b_ = s['rv']['a'], s['rv']['b']
                    ca, cb = op_const(a), op_const(b_)
                    la, lb = op_local(a), op_local(b_)
                    op = s['rv']['op']
                    if cb is not None and 'val' in cb and la in secs:
                        cmp_of[s['lhs']['l']] = (op, int(cb['val']))
                    elif ca is not None and 'val' in ca and lb in secs:
                        cmp_of[s['lhs']['l']] = ({'Le': 'Ge', 'Lt': 'Gt', 'Gt': 'Lt', 'Ge': 'Le'}[op], int(ca['val']))
            t = blk['t']
            if t['k'] == 'switch' and op_local(t['discr']) in cmp_of:
                op, c = cmp_of[op_local(t['discr'])]
                false_t = [tb for v, tb in t['targets'] if str(v) == '0']
                true_t = t['otherwise']
                if op in ('Le', 'Lt'):       # secs <= c / secs < c  true -> admitted
                    admitted.append((bi, true_t, c if op == 'Le' else c - 1))
                elif false_t:                # secs > c / secs >= c  false -> admitted
                    admitted.append((bi, false_t[0], c if op == 'Gt' else c - 1))
        good = False
        why = 'the seconds of the supplied duration are not compared with a constant before the packer is reached'
        # a checked narrowing of the seconds to 32 bits (u32::try_from(secs) ...) is the same refusal
        for b, t in calls:
            n_ = cname(t) or ''
            if ('try_from' in n_ or 'try_into' in n_) and any(g == 'u32' for g in (t.get('gargs') or [])) and any(op_local(a) in secs for a in t['args']):
                if any(b == pb or b in body.dominators().get(pb, set()) for pb, _pt in packs):
                    good = True
        for pb, pt in packs:
            doms = body.dominators().get(pb, set())
            for cb_, adm, mx in admitted:
                # the packer is reached only through the admitting edge: the admitting target dominates the packer's block and the
                # refusing side cannot reach it
                if adm == pb or adm in doms:
                    if mx == cap:
                        good = True
                    else:
                        why = ('the constructor admits seconds up to %d, the seconds field of the packed word holds at most %d: a larger value is cut by the shift, '
                               'the stamp denotes an earlier time and orders below older stamps' % (mx, cap))
        ctx.ob(rule, 'constructor-range|%s' % body.name.rsplit('::', 1)[-1], good, site(body, packs[0][1]['cs']),
               'seconds above 2^32 - 1 are refused before the packer is reached' if good else why)
    return found


def check_text_pure(ctx, facts, rule='C10.E8'):
    """E8: the text form reads back the same for every reader at every time — parsing and printing a timestamp consult nothing but the
    text / the word: no clock read (SystemTime / Instant), no environment, no shared state is reachable from `from_str` or `fmt`.  A
    parser that refuses stamps "too far ahead of the local clock" (round 6, C17f) makes a stored row unreadable on a node whose clock is
    behind, or after the clock was set back: the SQLite backend then fails reads the reference model serves."""
    cg = CallGraph(facts)
    IMPURE = ('std::time::SystemTime::now', 'std::time::Instant::now', 'std::time::SystemTime::elapsed', 'std::env::', 'std::fs::', 'std::thread::',
              'std::sync::', 'core::sync::atomic::', 'std::process::', 'rand::', 'tokio::time::')
    for label, name in (('reader', '<datacake_crdt::timestamp::HLCTimestamp as core::str::traits::FromStr>::from_str'),
                        ('writer', '<datacake_crdt::timestamp::HLCTimestamp as core::fmt::Display>::fmt')):
        root = facts.body(name)
        if root is None:
            continue
        hits = []
        for rb in cg.reach([root], bound=6):
            for _b, t in rb.calls():
                n_ = cname(t) or ''
                if any(n_ == i or (i.endswith('::') and n_.startswith(i)) for i in IMPURE):
                    hits.append((rb, t, n_))
        ctx.ob(rule, 'text-form-pure|' + label, not hits, site(hits[0][0], hits[0][1]['cs']) if hits else site(root),
               'the %s of the text form consults nothing but its input' % label if not hits else
               'the %s of the text form reaches %s (in %s): whether a stored timestamp reads back depends on when and where it is read — a row the writer stored can be '
               'refused by the reader' % (label, hits[0][2], last_seg(hits[0][0].name)))
