"""C16.SEM (node side): the deltas the membership watcher publishes for a history of snapshots (P-TRACE).

The watcher is found by role: the coroutine of the node crate that owns a stream of membership snapshots and the sending end of
a channel of `MembershipChange`.  It is interpreted over a scripted sequence of snapshots (joins, a leave, an address change, an
unchanged snapshot, everybody leaving, a rejoin under another address, a node replaced by a new id on the same address, a node
moving onto the address of one that leaves); the snapshot stream, the publication, and the calls on
the other handles it owns (selector, network, statistics) are modelled effects.  Decided per snapshot: the published delta's
`joined` is exactly (current minus previous) and its `left` exactly (previous minus current), as (id, address) pairs, the departed
ones with the address they HAD.  How the watcher computes this (set differences, loops, helper functions, which state it carries)
does not matter.  When a construct is outside the interpreter's vocabulary the structural clauses of M1 decide instead."""
import re
import absint
from absint import Interp, Order, Cell, MapObj, Unmodelled, UNIT, mk_option
from facts import strip_generics, last_seg, ty_head
import actor_abs
from actor_abs import World, ok, err, upvar_types
from consumer_abs import DELTA, member_adt

SELF = 'n0'
SNAPSHOTS = [
    {'n0': 'a0', 'n1': 'a1', 'n2': 'a2'},
    {'n0': 'a0', 'n2': 'a2', 'n3': 'a3'},
    {'n0': 'a0', 'n2': 'a2b', 'n3': 'a3'},
    {'n0': 'a0', 'n2': 'a2b', 'n3': 'a3'},
    {'n0': 'a0'},
    {'n0': 'a0', 'n1': 'a1c'},
    {'n0': 'a0', 'n4': 'a1c'},
    {'n0': 'a0', 'n4': 'a1c', 'n5': 'a5'},
    {'n0': 'a0', 'n5': 'a1c'},
]
LABELS = ['first snapshot: two remote nodes', 'one node joins, one leaves', 'a node changes its address', 'an unchanged snapshot',
          'every remote node leaves', 'a departed node rejoins under another address', 'a node is replaced by a new id on the SAME address (restart under a new id)',
          'another node joins', 'a node leaves and another one moves onto its address']


def expected():
    out = []
    prev = set()
    for snap in SNAPSHOTS:
        cur = {(n, a) for n, a in snap.items() if n != SELF}
        out.append((frozenset(cur - prev), frozenset(prev - cur)))
        prev = cur
    return out


def find_watcher(facts):
    out = []
    for b in facts.bodies.values():
        if b.crate != 'datacake_node' or b.kind != 'coroutine' or b.cfg is None:
            continue
        ups = upvar_types(b)
        tys = list(ups.values())
        if any(re.search(r'watch::Sender<%s>$' % re.escape(DELTA), t) for t in tys) and any('WatchStream<' in t or 'Receiver<alloc::collections::btree::map::BTreeMap<' in t for t in tys):
            out.append((b, ups))
    return out


DCS = {'n0': 'dcA', 'n1': 'dcB', 'n2': 'dcC', 'n3': 'dcD', 'n4': 'dcB', 'n5': 'dcC'}       # (each node's data centre: used by the selector-actor summary)


def make_member(facts, madt, n, a):
    cells = []
    for f in facts.adts[madt]['variants'][0]['fields']:
        if f['ty'] == 'u8':
            cells.append(Cell(('key', n)))
        elif 'SocketAddr' in f['ty']:
            cells.append(Cell(('addr', a)))
        elif f['ty'] in ('alloc::string::String',) or f['ty'].startswith('alloc::borrow::Cow<'):
            cells.append(Cell(('key', DCS.get(n, 'dc1'))))
        else:
            cells.append(Cell(('opaque', 'member-field:' + f['name'])))
    return ('adt', madt, 0, cells)


def pairs_of(interp, v):
    """the (id, address) pairs of a vector of members"""
    v = interp.deref_all(v)
    out = set()
    if v is None or v[0] != 'vec':
        raise Unmodelled('the delta does not hold vectors')
    for m in v[1]:
        m = interp.deref_all(m.v if isinstance(m, Cell) else m)
        n = a = None
        if m is not None and m[0] == 'adt':
            for c in m[3]:
                x = interp.deref_all(c.v)
                if x is not None and x[0] == 'key' and re.match(r'^n\d', str(x[1])):
                    n = x[1]
                elif x is not None and x[0] == 'addr':
                    a = x[1]
        out.add((n, a))
    return frozenset(out)


class WatcherWorld(World):
    def __init__(self, facts, madt, handle_types):
        World.__init__(self, hooks=[self.hook])
        self.facts = facts
        self.madt = madt
        self.handle_types = handle_types
        self.tick = 0
        self.published = []
        self.selector_payloads = []
        self.fields = [f['name'] for f in facts.adts[DELTA]['variants'][0]['fields']]

    def snapshot(self, i):
        return ('map', MapObj('btree', {n: Cell(make_member(self.facts, self.madt, n, a)) for n, a in SNAPSHOTS[i].items()}))

    def hook(self, world, interp, name, args, t, body):
        seg = last_seg(name)
        a0 = interp.deref_all(args[0]) if args else None
        if a0 is not None and a0[0] == 'snapshots':
            if name.endswith('StreamExt::next') or seg in ('next', 'recv', 'changed'):
                if seg == 'changed':
                    raise Unmodelled('the watcher polls the snapshot channel with changed()/borrow()')
                self.tick += 1
                v = mk_option(self.snapshot(self.tick - 1)) if self.tick <= len(SNAPSHOTS) else mk_option(None)
                return ('future', 'ready', v)
            raise Unmodelled('%s on the snapshot stream' % name)
        if a0 is not None and a0[0] == 'publisher':
            if seg in ('send', 'send_replace'):
                d = interp.deref_all(args[1])
                if d is None or d[0] != 'adt' or d[1] != DELTA:
                    raise Unmodelled('something other than a delta is published')
                got = {}
                for fname, c in zip(self.fields, d[3]):
                    got[fname] = pairs_of(interp, c.v)
                self.published.append((self.tick, got.get('joined', frozenset()), got.get('left', frozenset())))
                return ok(UNIT) if seg == 'send' else ('opaque', 'previous-delta')
            if seg in ('is_closed', 'receiver_count', 'subscribe', 'borrow'):
                return None
            raise Unmodelled('%s on the delta channel' % name)
        # the other handles the watcher owns (selector, network, statistics): effects outside this property
        if name.startswith('datacake') and seg == 'set_nodes' and 'NodeSelectorHandle' in name and len(args) == 2:
            self.selector_payloads.append((self.tick, args[1]))         # (what the selector actor is told: read by selactor_abs)
        if name.startswith('datacake'):
            cal = self.facts.body(strip_generics(name))
            owner = strip_generics(name).rsplit('::', 1)[0]
        m_ = re.match(r'^<(.+?) as ', t.get('resolved') or name)
        if m_ and ty_head(m_.group(1)) in self.handle_types:
            ty = body.local_ty(t['dest']['l']) if not t['dest']['p'] else ''
            v = UNIT if ty == '()' else ('opaque', 'result-of:' + name)
            return ('ref', Cell(v)) if ty.startswith('&') else v
        if name.startswith('datacake'):
            if owner in self.handle_types:
                if cal is not None and cal.local_ty(0).startswith('impl core::future::future::Future'):
                    return ('future', 'ready', UNIT)
                ty = body.local_ty(t['dest']['l']) if not t['dest']['p'] else ''
                return UNIT if ty == '()' else ('opaque', 'result-of:' + name)
        if seg in ('store', 'fetch_add', 'fetch_sub', 'swap') and 'atomic' in name:
            return UNIT if seg == 'store' else ('int', None)
        return None


def run_watcher(facts, entry, ups, want_payloads=False):
    madt = member_adt(facts)
    handle_types = {ty_head(t) for t in ups.values() if t.startswith('datacake')}

    def run(choices):
        world = WatcherWorld(facts, madt, handle_types)
        upv = {}
        for i, ty in ups.items():
            if ty == 'u8':
                upv[i] = ('key', SELF)
            elif 'WatchStream<' in ty or 'Receiver<' in ty:
                upv[i] = ('snapshots',)
            elif 'watch::Sender<' in ty:
                upv[i] = ('publisher',)
            else:
                upv[i] = ('opaque', 'handle:' + ty)
        it = Interp(facts, Order({}), opaque_call=world.call)
        it.poll_hook = world.poll
        it.unknown_call = actor_abs.lenient_unknown
        it.opaque_fields = True
        it.choices = list(choices)
        n = max(upv) + 1
        st = ('closure', entry.defp, [Cell(upv.get(i, ('opaque', 'u'))) for i in range(n)])
        it.run_body(entry, [st, ('opaque', 'cx')])
        if want_payloads:
            return it.oracle_log, (list(world.published), list(world.selector_payloads))
        return it.oracle_log, list(world.published)
    return absint.explore(run)


def check_watcher(ctx, facts, rule):
    from orswot_abs import _fallback
    try:
        ws = find_watcher(facts)
        if len(ws) != 1:
            raise Unmodelled('membership watcher not identified by role (%d candidates)' % len(ws))
        entry, ups = ws[0]
        res = run_watcher(facts, entry, ups)
    except (Unmodelled, absint.NeedChoice, IndexError, TypeError, KeyError, AttributeError, RecursionError) as e:
        return _fallback(ctx, rule, e)
    site_ = '%s:%s' % (entry.file, entry.line)
    want = expected()
    for i, (wj, wl) in enumerate(want):
        bad = []
        seen = 0
        for log, out in res:
            if out and isinstance(out, tuple) and out[0] == 'panic':
                bad.append('a path panics')
                continue
            seen += 1
            pubs = [p for p in out if p[0] == i + 1]
            gj = frozenset().union(*[p[1] for p in pubs]) if pubs else frozenset()
            gl = frozenset().union(*[p[2] for p in pubs]) if pubs else frozenset()
            if not pubs and (wj or wl):
                bad.append('nothing is published (expected joined=%s left=%s)' % (sorted(wj), sorted(wl)))
            elif gj != wj:
                bad.append('joined is reported as %s, expected %s' % (sorted(gj, key=str), sorted(wj)))
            elif gl != wl:
                bad.append('left is reported as %s, expected %s (every node that disappears must be reported, with the address it had)' % (sorted(gl, key=str), sorted(wl)))
        ok_ = seen > 0 and not bad
        ctx.ob(rule, 'watcher|snapshot%d|%s' % (i + 1, LABELS[i]), ok_, site_,
               'after "%s" the published delta is joined=%s left=%s' % (LABELS[i], sorted(wj), sorted(wl)) if ok_ else
               'after "%s": %s' % (LABELS[i], bad[0] if bad else 'no path'))
    return True
