"""C02.ST / C17.ST: the PROVIDED methods of the `Storage` trait (P-TRACE).

The keyspace actor calls `put_with_ctx` / `multi_put_with_ctx`; the three bundled backends (and most third-party ones) implement
only the required `put` / `multi_put` and inherit the provided `*_with_ctx` bodies.  The handler summaries (C02.SEM) treat a
storage call as an oracle that reports truthfully what it wrote — for the bundled backends that report is made by the REQUIRED
method, so the provided method in between must hand it on untouched.  Every provided method of the trait that takes documents is
interpreted with and without a context against an implementor whose required methods are recorded effects answering Ok or an
error:

  the provided method calls exactly ONE required method of the same implementor — the one of its own name minus `_with_ctx` —
  exactly once, with the caller's keyspace and the caller's documents, and returns that call's result unchanged (Ok as Ok, the
  error value as it was reported: for a bulk call that value carries the list of written ids the actor folds the set from).

A provided method that writes the documents one by one and then reports an empty "nothing was written" error for a failure in the
middle (round 6, C02f) leaves storage holding documents the set never learns about."""
import re
import absint
from absint import Interp, Order, Cell, Unmodelled, UNIT, mk_option
from facts import last_seg, ty_head
import actor_abs
from actor_abs import World, ok, err, upvar_types

EC = 'datacake_eventual_consistency'


def provided_methods(facts):
    out = []
    for b in facts.bodies.values():
        m = re.match(r'^' + EC + r'::storage::Storage::(\w+)::\{closure#0\}$', b.name)
        if m and b.kind == 'coroutine' and not b.d['promoted'] and b.cfg is not None:
            out.append((m.group(1), b))
    return sorted(out, key=lambda x: x[0])


class DefaultsWorld(World):
    def __init__(self, answer):
        World.__init__(self, hooks=[self.hook])
        self.answer = answer
        self.calls = []

    def hook(self, world, interp, name, args, t, body):
        m = re.search(r'::storage::Storage::(\w+)$', name)
        if m:
            tags = []

            def dig(v, d=0):
                v = interp.deref_all(v)
                if v is None or d > 6:
                    return
                if v[0] in ('opaque', 'key'):
                    tags.append(str(v[1]))
                elif v[0] in ('adt', 'closure', 'tuple'):
                    for c in (v[3] if v[0] == 'adt' else v[2] if v[0] == 'closure' else v[1]):
                        dig(c.v, d + 1)
                elif v[0] == 'iter':
                    # what the implementor would pull from the iterator it is handed (pending adaptor stages run)
                    for x in interp.drain(v[1], 0):
                        dig(x, d + 1)
                elif v[0] == 'vec':
                    for x in v[1]:
                        dig(x.v if isinstance(x, Cell) else x, d + 1)
            for a in args:
                dig(a)
            self.calls.append((m.group(1), tuple(tags)))
            return ('future', 'ready', self.answer)
        return None


def check_defaults(ctx, facts, rule):
    """every provided method of Storage that takes documents forwards to its required base"""
    provided = provided_methods(facts)
    seen = 0
    for meth, body in provided:
        ups = upvar_types(body)
        doc_like = [i for i, ty in ups.items() if 'Document' in ty or 'Iterator' in ty or ty_head(ty).endswith('::Document')]
        if not doc_like:
            continue            # (a provided read helper: not part of this clause)
        site_ = '%s:%s' % (body.file, body.line)
        base = meth[:-len('_with_ctx')] if meth.endswith('_with_ctx') else None
        bad = []
        runs = 0
        try:
            for with_ctx in (False, True):
                for ans_kind in ('ok', 'err'):
                    answer = ok(UNIT) if ans_kind == 'ok' else err(('opaque', 'reported-error'))

                    def run(choices, with_ctx=with_ctx, answer=answer):
                        world = DefaultsWorld(answer)
                        upv = {}
                        for i, ty in ups.items():
                            if 'PutContext' in ty:
                                upv[i] = mk_option(('ref', Cell(('opaque', 'put-context')))) if with_ctx else mk_option(None)
                            elif ty in ('&str', '&alloc::string::String', 'alloc::string::String', '&mut str'):
                                upv[i] = ('ref', Cell(('key', 'ks'))) if ty.startswith('&') else ('key', 'ks')
                            elif ty.startswith('&') and ('Self' in ty or ty_head(ty[1:].strip()) == 'Self' or i == 0):
                                upv[i] = ('ref', Cell(('opaque', 'self-storage')))
                            elif i in doc_like and ('Iterator' in ty or 'impl ' in ty):
                                # the caller's documents: a sequence of two (so that "one call per document" shows as two calls)
                                upv[i] = ('iter', absint.IterObj([('opaque', 'docs-in'), ('opaque', 'docs-in-2')]))
                            elif i in doc_like:
                                upv[i] = ('opaque', 'docs-in')
                            else:
                                upv[i] = ('opaque', 'arg%d' % i)
                        it = Interp(facts, Order({}), opaque_call=world.call, step_limit=200000)
                        it.poll_hook = world.poll
                        it.unknown_call = actor_abs.lenient_unknown
                        it.opaque_fields = True
                        it.choices = list(choices)
                        n = max(upv) + 1 if upv else 0
                        st = ('closure', body.defp, [Cell(upv.get(i, ('opaque', 'upvar%d' % i))) for i in range(n)])
                        r = it.run_body(body, [st, ('opaque', 'cx')])
                        return it.oracle_log, (it.deref_all(r), list(world.calls))
                    for log, res in absint.explore(run):
                        runs += 1
                        label = 'with%s a context, the implementor answers %s' % ('' if with_ctx else 'out', 'Ok' if ans_kind == 'ok' else 'an error')
                        if res and res[0] == 'panic':
                            bad.append('%s: a path panics' % label)
                            continue
                        r, calls = res
                        if len(calls) != 1:
                            bad.append('%s: the implementor is called %d times (%s) — a provided bulk method that writes in several calls cannot report '
                                       'truthfully which documents were written when one of them fails' % (label, len(calls), ', '.join(c[0] for c in calls) or 'never'))
                            continue
                        cm, tags = calls[0]
                        if base is not None and cm != base:
                            bad.append('%s: `%s` forwards to `%s`, expected `%s`' % (label, meth, cm, base))
                        if 'self-storage' not in tags or 'ks' not in tags or 'docs-in' not in tags or ('docs-in-2' not in tags and meth.startswith('multi')):
                            bad.append('%s: the required method is not called on the same implementor with the caller\'s keyspace and documents (saw %s)' % (label, list(tags)))
                        if r is None or r[0] != 'adt' or r[1] != 'core::result::Result':
                            bad.append('%s: the provided method does not return a Result' % label)
                            continue
                        if ans_kind == 'ok' and r[2] != 0:
                            bad.append('%s: Ok of the implementor is turned into an error' % label)
                        if ans_kind == 'err':
                            pv = it_payload(r)
                            if r[2] != 1:
                                bad.append('%s: the implementor\'s error is swallowed (Ok is returned): the actor folds the set for documents that were not written' % label)
                            elif pv != ('opaque', 'reported-error'):
                                bad.append('%s: the error value the implementor reported is replaced by another one (%s): for a bulk write it carries the list of written ids the '
                                           'actor folds the set from' % (label, (pv[:2] if pv else pv)))
        except (Unmodelled, absint.NeedChoice, absint.PanicPath, IndexError, TypeError, KeyError, AttributeError, RecursionError) as e:
            from orswot_abs import _fallback
            _fallback(ctx, rule + '|' + meth, e)
            continue
        seen += 1
        good = runs > 0 and not bad
        ctx.ob(rule, 'provided|%s' % meth, good, site_,
               'Storage::%s hands keyspace and documents to the implementor\'s `%s` once and returns its result unchanged (4 scenarios)' % (meth, base or 'base method')
               if good else 'Storage::%s: %s' % (meth, bad[0] if bad else 'no path'))
    return seen


def it_payload(r):
    c = r[3][0].v if r[3] else None
    while c is not None and c[0] == 'ref':
        c = c[1].v
    return c
