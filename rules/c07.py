"""C07 — a restarted node rebuilds exactly what storage holds.  DESIGN §5 C07."""
from analysis import *  # noqa
from facts import strip_generics, op_local, op_const, const_int, last_seg, ty_head, ty_args
from engine import site
import c02
import c17

CONFIGS = ['prod']
EXPLANATION = (
    'R5: the source-less OrSWotSet::insert / delete the replay uses are insert_with_source / delete_with_source under one constant source and touch the set through nothing else; the sourced mutators re-evaluated (C04.SEM). '
    'SEM (abstract interpretation of the MIR, no code runs): KeyspaceGroup::load_states_from_storage is interpreted against a scripted storage (two keyspaces; four rows in '
    'storage order of which two share a stamp and one is a tombstone; one row) with the storage calls, the operations on the rebuilt sets and the final hand-over as recorded '
    'effects: every listed keyspace must be rebuilt from its own rows, every row replayed exactly once as the right operation with its own id and stamp, in non-decreasing '
    'stamp order, and each set handed on under its keyspace\'s name. Subsumes R1, which is evaluated only when a construct is not modelled. '
    'Structural clauses: R1 the rebuild loop — every keyspace storage lists is rebuilt (no filter on the list), its rows are gathered in a '
    'collection that keeps every row (a map keyed by timestamp would collapse the rows of one bulk write), its metadata is sorted by '
    'the timestamp component before the replay (the replay goes through source 0, whose gate refuses any stamp older than the newest '
    'already seen from the same origin, so an unsorted replay drops entries), a tombstone row is replayed as a delete and a live row as '
    'an insert on every iteration, and the rebuilt set is registered under the keyspace it was read for; R2 storage is never behind the '
    'set (= C02.O1/O2, evaluated under C02); R3 load before serve — in store creation the success edge of the rebuild dominates '
    'registering the RPC services and starting the replication / distribution tasks; R4 durable commit on the bundled backends '
    '(= C17.B4/B5, evaluated here as well). NOT decided: crash points inside a backend, fsync behaviour, equality of the rebuilt set with '
    'storage for arbitrary stored histories (value level).')
ASSUMPTIONS = ['the Storage implementation returns what it durably holds']

EC = 'datacake_eventual_consistency::'
G = EC + 'keyspace::group::KeyspaceGroup::'
ST = EC + 'storage::Storage::'
OS = 'datacake_crdt::orswot::OrSWotSet::'


def check_R1(ctx, facts):
    bs = [b for b in facts.bodies.values() if b.kind == 'coroutine' and b.name == G + 'load_states_from_storage::{closure#0}']
    if not bs:
        ctx.bad('C07.R1', 'anchor', '', 'load_states_from_storage not found (fail closed)')
        return
    body = bs[0]
    flow = Flow(body)
    calls = list(body.calls())
    kl = [(b, t) for b, t in calls if cname(t) == ST + 'get_keyspace_list']
    im = [(b, t) for b, t in calls if cname(t) == ST + 'iter_metadata']
    if len(kl) != 1 or len(im) != 1:
        ctx.bad('C07.R1', 'shape', site(body), 'expected one get_keyspace_list and one iter_metadata call (fail closed)')
        return
    # outer loop iterates the keyspace list unfiltered
    kl_aw = awaited_output_local(body, flow, kl[0][0])
    outer = None
    for b, t in calls:
        if cname(t) == 'core::iter::traits::iterator::Iterator::next' and kl_aw is not None and kl_aw in flow.backward([op_local(t['args'][0])]) \
                and body.dominates(b, im[0][0]):
            outer = (b, t)
    good = False
    if outer:
        adaptors, back = c02.iterator_chain(body, flow, op_local(outer[1]['args'][0]))
        drops = [a[0] for a in adaptors if a[0] in ('filter', 'take', 'skip', 'step_by', 'take_while', 'skip_while', 'filter_map')]
        good = not drops
    ctx.ob('C07.R1', 'every-listed-keyspace', good, site(body, kl[0][1]['cs']),
           'every keyspace storage lists is rebuilt' if good else 'the keyspace list is filtered / truncated before the rebuild: some stored keyspaces are not rebuilt')
    # the iter_metadata keyspace argument is this iteration's keyspace
    ks_ok = outer is not None and outer[1]['dest']['l'] in flow.backward([op_local(im[0][1]['args'][1])])
    ctx.ob('C07.R1', 'metadata-of-this-keyspace', ks_ok, site(body, im[0][1]['cs']), 'metadata is read for the keyspace being rebuilt' if ks_ok else 'metadata is read for a different keyspace')
    # sort by the timestamp component before replay
    im_aw = awaited_output_local(body, flow, im[0][0])
    sorts = [(b, t) for b, t in calls if cname(t) and re.search(r'slice::<impl \[T\]>::(sort_by_key|sort_unstable_by_key|sort_by|sort|sort_unstable|sort_by_cached_key)$', cname(t))]
    inner = None
    for b, t in calls:
        if cname(t) == 'core::iter::traits::iterator::Iterator::next' and im_aw is not None and im_aw in flow.backward([op_local(t['args'][0])]) \
                and (outer is None or b != outer[0]) and body.dominates(im[0][0], b):
            inner = (b, t)
    sort_ok = False
    why = 'the stored metadata is replayed unsorted: the replay goes through source 0, whose gate refuses any stamp older than the newest already seen from the same origin, so entries are dropped from the rebuilt set'
    for b, t in sorts:
        if inner and body.dominates(b, inner[0]) and body.dominates(im[0][0], b) and im_aw in flow.backward([op_local(t['args'][0])]):
            meth = last_seg(cname(t))
            if meth in ('sort_by_key', 'sort_unstable_by_key', 'sort_by_cached_key'):
                cdef, _caps = c02.closure_def_of_local(body, op_local(t['args'][1]))
                cb = facts.bodies.get(cdef) if cdef else None
                fld = None
                if cb:
                    for _b, _j, s in cb.assigns():
                        if s['lhs']['l'] == 0:
                            for pl in rv_places(s['rv']):
                                fs = [e['f'] for e in pl['p'] if isinstance(e, dict) and 'f' in e]
                                if pl['l'] == 2 and fs:
                                    fld = fs[-1]
                sort_ok = fld == 1
                if not sort_ok:
                    why = 'metadata is sorted by tuple component %s, not by the timestamp (component 1)' % fld
            else:
                sort_ok = True   # whole-tuple sort: (key, ts, flag) — accepted only if ts-major; conservative: flag it
                sort_ok = False
                why = 'metadata is sorted with %s on the whole row (key-major), not by timestamp' % meth
    # the rows are gathered in a collection that keeps every row
    coll = [(b, t) for b, t in calls if cname(t) == 'core::iter::traits::iterator::Iterator::collect' and im_aw is not None
            and im_aw in flow.backward([op_local(t['args'][0])])]
    for b, t in coll:
        cty = body.local_ty(t['dest']['l'])
        head = ty_head(cty)
        seq = head in ('alloc::vec::Vec', 'smallvec::SmallVec', 'alloc::collections::vec_deque::VecDeque')
        keyed = head in ('alloc::collections::btree::map::BTreeMap', 'std::collections::hash::map::HashMap',
                         'alloc::collections::btree::set::BTreeSet', 'std::collections::hash::set::HashSet')
        kargs = ty_args(cty) if keyed else []
        key_has_id = bool(kargs) and ('u64' in kargs[0] and kargs[0].strip() != 'datacake_crdt::timestamp::HLCTimestamp')
        good = seq or (keyed and key_has_id)
        ctx.ob('C07.R1', 'rows-not-collapsed', good, site(body, t['cs']),
               'stored rows are gathered in %s: every row is kept' % head if good else
               'stored rows are gathered in %s: rows that share the collection key collapse into one (a bulk write stamps all its documents '
               'with one timestamp), so documents storage holds are missing from the rebuilt set' % cty)
        if keyed and kargs and kargs[0].strip().startswith(('datacake_crdt::timestamp::HLCTimestamp', '(datacake_crdt::timestamp::HLCTimestamp')) and head.startswith('alloc::collections::btree'):
            sort_ok = True
            why = ''
    ctx.ob('C07.R1', 'sorted-by-timestamp', sort_ok, site(body, sorts[0][1]['cs'] if sorts else None),
           'stored rows are sorted by timestamp before the replay' if sort_ok else why)
    # replay: tombstone flag true -> delete, false -> insert, every iteration one of the two
    if inner is None:
        ctx.bad('C07.R1', 'replay-loop', site(body), 'replay loop over the metadata not found (fail closed)')
        return
    dels = [b for b, t in calls if cname(t) in (OS + 'delete', OS + 'delete_with_source')]
    inss = [b for b, t in calls if cname(t) in (OS + 'insert', OS + 'insert_with_source')]
    flag_locals = set()
    item_fw = flow.forward([inner[1]['dest']['l']], stop=[0])
    for l in item_fw:
        if body.local_ty(l) == 'bool' and any(s['lhs']['l'] == l and s['rv']['k'] == 'use' and op_place(s['rv']['op']) and op_place(s['rv']['op'])['p']
                                               for _b, _j, s in body.assigns()):
            flag_locals.add(l)
    pol = False
    for fl in flag_locals:
        import c18
        te, fe = c18.bool_edges(body, fl)
        if te and fe and dels and inss and all(body.edge_dominates(te[0], d) for d in dels) and all(body.edge_dominates(fe[0], i) for i in inss):
            pol = True
    ctx.ob('C07.R1', 'tombstone-polarity', pol, site(body),
           'a tombstone row is replayed as delete, a live row as insert' if pol else 'tombstone rows are replayed as inserts / live rows as deletes (or the flag is not consulted)')
    re_ = ResultEdges(body, flow, inner[0], include_option=True)
    starts = [e[1] for e in re_.ok]
    every = bool(starts) and inner[0] not in body.reachable_from(starts, avoid=dels + inss)
    ctx.ob('C07.R1', 'every-row-replayed', every, site(body),
           'every stored row is replayed (no iteration skips both insert and delete)' if every else 'a stored row can be skipped during the rebuild')
    # the rebuilt set is registered under the keyspace it was read for
    ins = [(b, t) for b, t in calls if cname(t) == 'alloc::collections::btree::map::BTreeMap::insert']
    reg = False
    for b, t in ins:
        kb = flow.backward([op_local(t['args'][1])])
        if outer and outer[1]['dest']['l'] in kb:
            reg = True
    ctx.ob('C07.R1', 'registered-under-own-name', reg, site(body), 'the rebuilt set is registered under its keyspace name' if reg else 'the rebuilt set is registered under a different name')
    ld = [b for b, t in calls if cname(t) == G + 'load_states']
    ctx.ob('C07.R1', 'states-installed', bool(ld) and body.must_pass([0], ld, ok_return_blocks(body)), site(body),
           'Ok is returned only after the rebuilt states were installed' if ld else 'the rebuilt states are never installed')


def check_R3(ctx, facts, rule='C07.R3'):
    bs = [b for b in facts.bodies.values() if b.kind == 'coroutine' and b.name == EC + 'EventuallyConsistentStore::create::{closure#0}']
    if not bs:
        ctx.bad(rule, 'anchor', '', 'EventuallyConsistentStore::create not found (fail closed)')
        return
    body = bs[0]
    flow = Flow(body)
    calls = list(body.calls())
    ld = [(b, t) for b, t in calls if cname(t) == G + 'load_states_from_storage']
    if len(ld) != 1:
        ctx.bad(rule, 'load', site(body), 'store creation does not rebuild the keyspaces from storage exactly once')
        return
    re_ = ResultEdges(body, flow, ld[0][0])
    serve = [(b, t) for b, t in calls if cname(t) in ('datacake_node::DatacakeNode::add_rpc_service', EC + 'replication::poller::start_replication_cycle',
                                                      EC + 'replication::distributor::start_task_distributor_service', EC + 'replication::start_replication_cycle',
                                                      EC + 'replication::start_task_distributor_service')]
    ctx.floor(rule, 'service registration / task start sites', len(serve), 4)
    for b, t in serve:
        idx = len([o for o in ctx.obs if o.rule == rule and o.key.startswith(last_seg(cname(t)))])
        good = re_.inspected and re_.ok_dominates(b) and b not in re_.reachable_from_err()
        ctx.ob(rule, '%s#%d' % (last_seg(cname(t)), idx), good, site(body, t['cs']),
               '%s happens only after the rebuild succeeded' % last_seg(cname(t)) if good else
               '%s can happen before / without a successful rebuild: peers and clients are served from an empty or partial set' % last_seg(cname(t)))


def check(ctx):
    facts = ctx.facts('prod')
    # SEM: load_states_from_storage interpreted against a scripted storage (rebuild_abs): every listed keyspace rebuilt from its own
    # rows, every row replayed once as the right operation with its own id and stamp, in non-decreasing stamp order, each set handed
    # on under its name; subsumes R1, which is evaluated only when a construct is not modelled
    import rebuild_abs
    if not rebuild_abs.check_rebuild(ctx, facts, 'C07.SEM'):
        check_R1(ctx, facts)
    # R5: the replay goes through the set's source-less insert / delete: they are the sourced mutators under one constant source and
    # nothing else (orswot_abs.check_wrappers), and the sourced mutators are what C04 decides them to be (re-evaluated here)
    import orswot_abs
    orswot_abs.check_wrappers(ctx, facts, 'C07.R5')
    orswot_abs.check_mutators(ctx, facts, 'C07.R5.SET')
    check_R3(ctx, facts)
    n0 = len(ctx.obs)
    c17.check_B4(ctx, facts)
    c17.check_B5(ctx, facts)
    c17.check_B8(ctx, facts, rule='C07.R4')
    c17.check_B12(ctx, facts, rule='C07.R6')      # what iter_metadata lists does not rest on a numeric iteration order of little-endian keys
    c17.check_B7(ctx, facts)        # the keyspace list a restart rebuilds from is the persistent registry, which only grows
    c17.check_B9(ctx, facts)        # what the restart replays is every stored row: no read statement provably excludes rows (ids >= 2^63 are negative rows) — round 8, C07i
    for o in ctx.obs[n0:]:
        o.rule = 'C07.R4'
