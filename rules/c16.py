"""C16 — membership change events add up to the live membership.  DESIGN §5 C16."""
from analysis import *  # noqa
from facts import strip_generics, op_local, op_const, const_int, last_seg, ty_head, ty_args
from engine import site
import c02

CONFIGS = ['prod']
EXPLANATION = (
    'M7: no exclusive range in the node crate ends at the MAX of its element type (a walk over the node-id space that never visits id MAX). '
    'M6.SEM: the selector actor the watcher awaits before publishing each delta, interpreted end to end (the same summary as C15.N1.SEM): it serves every later update and request also after a reply could not be delivered because its requester went away. '
    'M5: the membership record is a plain carrier — ClusterMember::new stores id, address and data centre exactly as given (the selector filters the local node by comparing addresses, the consumers key their peers by id). '
    'SEM (abstract interpretation of the MIR, no code runs): the node\'s membership watcher, found by role, is interpreted over a scripted history of nine '
    'snapshots (joins, a leave, an address change, an unchanged snapshot, everybody leaving, a rejoin under another address, a node replaced by a new id on the same address, '
    'another join, a node leaving while another moves onto its address) and each published delta must be '
    'exactly joined = current - previous, left = previous - current as (id, address) pairs, departed nodes with the address they had; each membership consumer '
    'of the store (the coroutine owning the receiving end of a channel whose message carries the delta) is interpreted over seven rounds of queued deltas and '
    'the peers reachable from the arguments of the asynchronous workers it calls must be exactly the set the history prescribes. These summaries subsume M1 and '
    'the per-consumer part of M3; the clauses below remain as the fallback when a construct is outside the interpreter\'s vocabulary. '
    'Structural clauses: M1 (contradiction rule) in the node\'s membership watcher, nodes in difference(previous, current) are by '
    'construction absent from the current snapshot, so the entry pushed to `left` must be looked up in state carried over from the previous '
    'iteration, never in the current snapshot (and symmetrically `joined` in the current one); the carried set is replaced only after both differences were '
    'computed and the change published, and the carried snapshot is refreshed together with it; M2 a delta type (joined/left lists) must not travel on a latest-value-only channel (tokio watch), on which a slow or late '
    'subscriber loses intermediate deltas; M3 the two consumers apply `left` only to removals and `joined` only to insertions of their '
    'live-member maps, on every path of the membership arm, and the forwarder hands every event to both consumers; M4 a consumer\'s live-member map is changed by nothing else (no other insert / remove / '
    'clear / retain / reassignment inside the service loop; with SEM: the MIR locals handed to the workers are mutated only inside the arm handling the membership message). '
    'NOT decided: chitchat\'s own failure detection; timing.')
ASSUMPTIONS = ['chitchat publishes complete membership snapshots']

DELTA = 'datacake_node::MembershipChange'


def node_watcher(facts):
    for b in facts.bodies.values():
        if b.crate == 'datacake_node' and b.kind == 'coroutine' and not b.d['promoted'] \
                and len([1 for _b, t in b.calls() if cname(t) == 'alloc::collections::btree::set::BTreeSet::difference']) >= 2:
            return b
    return None


def loop_header_blocks(body, next_block):
    return [next_block]


def check_M1(ctx, facts):
    body = node_watcher(facts)
    if body is None:
        ctx.bad('C16.M1', 'anchor', '', 'membership watcher (two set differences) not found in datacake-node (fail closed)')
        return None
    direct = Flow(body, only=set())
    flow = Flow(body)
    calls = list(body.calls())
    nxt = [(b, t) for b, t in calls if cname(t) and cname(t).endswith('StreamExt::next')]
    if len(nxt) != 1:
        ctx.bad('C16.M1', 'loop', site(body), 'cannot find the single stream-next that drives the watcher loop (fail closed)')
        return None
    hb = nxt[0][0]
    # current snapshot: the Some payload of the awaited next()
    fw = flow.forward([nxt[0][1]['dest']['l']], stop=[0])
    S_cur = None
    for b, j, s in body.assigns():
        if s['rv']['k'] == 'use':
            pl = op_place(s['rv']['op'])
            if pl and pl['l'] in fw and any(isinstance(e, dict) and e.get('n') == 'Some' for e in pl['p']) and \
                    ty_head(body.local_ty(s['lhs']['l'])) == 'alloc::collections::btree::map::BTreeMap':
                S_cur = s['lhs']['l']
    if S_cur is None:
        ctx.bad('C16.M1', 'snapshot', site(body), 'current snapshot local not found (fail closed)')
        return None
    in_loop = body.reachable_from([hb])
    pre_loop = set(body.reachable()) - in_loop | {0}

    def defs_of(l):
        out = []
        for b, j, s in body.assigns():
            if s['lhs']['l'] == l and not s['lhs']['p']:
                out.append(b)
        for b, t in calls:
            if t['dest']['l'] == l and not t['dest']['p']:
                out.append(b)
        return out

    def classify(local):
        """'current' / 'carried' / None for the root object a reference local points to"""
        roots = sorted(referent_roots(body, local))
        kinds = set()
        for r in roots:
            if r == S_cur:
                kinds.add('current')
                continue
            ds = defs_of(r)
            if any(not body.dominates(hb, d) for d in ds):
                kinds.add('carried')      # has a definition before the loop: state kept across iterations
            elif S_cur in flow.backward([r]):
                kinds.add('current')      # iteration-local value computed from the snapshot
            else:
                kinds.add('other')
        return kinds

    carried_snapshots = set()
    diffs = [(b, t) for b, t in calls if cname(t) == 'alloc::collections::btree::set::BTreeSet::difference']
    fields = [f['name'] for f in facts.adts[DELTA]['variants'][0]['fields']]
    pushes = []
    for b, t in calls:
        if cname(t) != 'alloc::vec::Vec::push':
            continue
        # receiver: &mut delta.<field>
        rl = op_local(t['args'][0])
        for _b, _j, s in body.assigns():
            if s['lhs']['l'] == rl and s['rv']['k'] == 'ref':
                pl = s['rv']['pl']
                if body.local_ty(pl['l']) == DELTA and pl['p'] and isinstance(pl['p'][0], dict):
                    pushes.append((b, t, fields[pl['p'][0]['f']]))
    seen_fields = set()
    for pb, pt, fld in pushes:
        seen_fields.add(fld)
        # which difference loop is this push in?
        loop = None
        for db, dt in diffs:
            if body.dominates(db, pb) and (loop is None or body.dominates(loop[0], db)):
                # innermost dominating difference whose iterator feeds the loop
                nb, nt = None, None
                for b2, t2 in calls:
                    if cname(t2) == 'core::iter::traits::iterator::Iterator::next' and dt['dest']['l'] in flow.backward([op_local(t2['args'][0])]) \
                            and body.dominates(b2, pb):
                        nb, nt = b2, t2
                if nt is not None:
                    loop = (db, dt)
        if loop is None:
            ctx.bad('C16.M1', fld + '|loop', site(body, pt['cs']), 'push to `%s` is not inside a loop over a set difference (unrecognised idiom, fail closed)' % fld)
            continue
        a0, a1 = classify(op_local(loop[1]['args'][0])), classify(op_local(loop[1]['args'][1]))
        want = ({'carried'}, {'current'}) if fld == 'left' else ({'current'}, {'carried'})
        ctx.ob('C16.M1', fld + '|difference-direction', (a0, a1) == want, site(body, loop[1]['cs']),
               '`%s` iterates difference(%s, %s)' % (fld, '/'.join(sorted(a0)), '/'.join(sorted(a1))) +
               ('' if (a0, a1) == want else ' — expected difference(%s, %s)' % ('/'.join(want[0]), '/'.join(want[1]))))
        # the lookup guarding the push
        gets = []
        for gb, gt in calls:
            if cname(gt) in ('alloc::collections::btree::map::BTreeMap::get', 'alloc::collections::btree::map::BTreeMap::remove',
                             'std::collections::hash::map::HashMap::get') and body.dominates(loop[0], gb) and body.dominates(gb, pb):
                for sb, l, head in ResultEdges(body, flow, gb, include_option=True).switches:
                    gets.append((gb, gt))
        if not gets:
            # pushed value derived from the loop item itself (carries its own data): accept if the item set holds full members
            ctx.ok('C16.M1', fld + '|lookup', site(body, pt['cs']), 'push to `%s` is not guarded by a map lookup' % fld)
            continue
        gb, gt = gets[-1]
        kind = classify(op_local(gt['args'][0]))
        want_k = {'carried'} if fld == 'left' else {'current'}
        ctx.ob('C16.M1', fld + '|lookup', kind == want_k, site(body, gt['cs']),
               'entry reported in `%s` is looked up in the %s snapshot' % (fld, '/'.join(sorted(kind))) +
               ('' if kind == want_k else (' — a node in difference(previous, current) is by construction absent from the current snapshot, '
                                           'so this lookup never succeeds and `left` is always empty: consumers never remove departed nodes'
                                           if fld == 'left' else ' — a joined node is absent from the previous snapshot')))
        if fld == 'left' and kind == {'carried'}:
            carried_snapshots = set(referent_roots(body, op_local(gt['args'][0])))
    # both report loops and the publication run on every iteration of the watcher
    first = nxt_some_target(body, nxt[0][0], flow)
    pub = [b for b, t in calls if cname(t) and cname(t).startswith('tokio::sync::watch::Sender::send')]
    pub += [b for b, t in calls if cname(t) and re.search(r'(mpsc|broadcast|flume|crossbeam_channel).*::(send|send_async|try_send)$', cname(t) or '')
            and body.local_ty(op_local(t['args'][1])) == DELTA] if False else []
    # whenever the carried set is replaced by the current one, both differences were computed and the change was published
    carried_sets = set()
    for db, dt in diffs:
        for a in dt['args'][:2]:
            for r in referent_roots(body, op_local(a)):
                if any(not body.dominates(hb, d) for d in defs_of(r)) and ty_head(body.local_ty(r)) == 'alloc::collections::btree::set::BTreeSet':
                    carried_sets.add(r)
    upd = [b for b, j, s in body.assigns() if s['lhs']['l'] in carried_sets and not s['lhs']['p'] and body.dominates(hb, b) and b in in_loop]
    # the carried snapshot (looked up for departed nodes) is refreshed from the current snapshot whenever the carried set is
    if carried_snapshots:
        upd_m = [b for b, j, s in body.assigns() if s['lhs']['l'] in carried_snapshots and not s['lhs']['p'] and body.dominates(hb, b) and b in in_loop
                 and s['rv']['k'] == 'use' and op_local(s['rv']['op']) is not None and S_cur in flow.backward([op_local(s['rv']['op'])])]
        good_m = bool(upd_m) and all(any(body.dominates(m, u) for m in upd_m) or body.must_pass([u], upd_m, [hb]) for u in upd)
        ctx.ob('C16.M1', 'left|carried-refreshed', good_m, site(body),
               'whenever the carried set is replaced, the carried snapshot is replaced by the current one in the same iteration' if good_m else
               'the carried snapshot is not refreshed together with the carried set: a node that joined and later leaves is looked up in a snapshot that never contained it')
    if not upd:
        ctx.bad('C16.M1', 'carried-set|updated', site(body), 'the carried network set is never replaced by the current one: every later snapshot reports all nodes as joined again')
    for db, dt in diffs:
        idx = diffs.index((db, dt))
        every = bool(upd) and body.must_pass([first], [db], upd)
        ctx.ob('C16.M1', 'difference#%d|before-carried-update' % idx, every, site(body, dt['cs']),
               'the carried set is only replaced after this difference was computed' if every else
               'the carried set can be replaced by the current one without this difference having been computed: the joins / leaves of that snapshot are lost for good')
    if pub:
        every = bool(upd) and body.must_pass([first], pub, upd)
        ctx.ob('C16.M1', 'publish|before-carried-update', every, site(body),
               'the carried set is only replaced after the change was published' if every else
               'the carried set can be replaced without the change having been published')
    # an iteration may bypass the differences only when the two sets the differences are computed over are equal
    dblocks = [db for db, _dt in diffs]
    R = body.reachable_from([first], avoid=dblocks)
    if hb in R:
        cur_sets = set()
        for db, dt in diffs:
            for a in dt['args'][:2]:
                for r in referent_roots(body, op_local(a)):
                    if r not in carried_sets and ty_head(body.local_ty(r)) == 'alloc::collections::btree::set::BTreeSet':
                        cur_sets.add(r)
        skips_ok = True
        why_skip = ''
        # switch blocks inside R one of whose successors reaches the loop header without the differences while another reaches a difference
        for sb in sorted(R):
            t = body.term(sb)
            if t['k'] != 'switch':
                continue
            succ = body.succ(sb)
            to_hdr = [s for s in succ if hb in body.reachable_from([s], avoid=dblocks)]
            to_diff = [s for s in succ if set(dblocks) & body.reachable_from([s], avoid=[hb])]
            if not to_hdr or not to_diff or not all(body.dominates(sb, db) for db in dblocks):
                continue
            skip_targets = [s for s in to_hdr if not (set(dblocks) & body.reachable_from([s], avoid=[hb]))]
            if not skip_targets:
                continue
            # the condition
            ok_here = False
            for c in all_comparisons(body):
                if c['dest'] != op_local(t['discr']) or c['rel'] not in ('==', '!=') or c['lhs'] is None or c['rhs'] is None:
                    continue
                ra, rb = set(referent_roots(body, c['lhs'])), set(referent_roots(body, c['rhs']))
                if (ra & carried_sets and rb & cur_sets) or (rb & carried_sets and ra & cur_sets):
                    tm = {int(v): tb for v, tb in t['targets']}
                    eq_t = (t['otherwise'] if 0 in tm else tm.get(1)) if c['rel'] == '==' else tm.get(0, t['otherwise'])
                    ok_here = eq_t in skip_targets and len(skip_targets) == 1
            if not ok_here:
                skips_ok = False
                why_skip = 'line %s' % t.get('cs')
        ctx.ob('C16.M1', 'skip-only-when-sets-equal', skips_ok, site(body),
               'a snapshot is skipped only on equality of the carried and the current (id, address) sets' if skips_ok else
               'a snapshot can be skipped (%s) on a condition other than equality of the two sets the differences are computed over: a member '
               'that changed address under the same id (restart) is reported neither as left nor as joined' % why_skip)
    for f in ('left', 'joined'):
        if f not in seen_fields:
            ctx.bad('C16.M1', f + '|push', site(body), 'no push into MembershipChange.%s found: %s nodes are never reported' % (f, 'departed' if f == 'left' else 'joined'))
    # the carried set is refreshed every iteration
    return body


def nxt_some_target(body, next_block, flow):
    """first block of the loop body (Some edge of the awaited next())"""
    t = body.term(next_block)
    re_ = ResultEdges(body, flow, next_block, include_option=True)
    for (a, b) in re_.ok:
        return b
    return next_block


def check_M2(ctx, facts):
    n = 0
    for b in facts.bodies.values():
        if b.d['promoted'] or not b.crate.startswith('datacake'):
            continue
        for blk, t in b.calls():
            cn = cname(t)
            if cn and cn.startswith('tokio::sync::watch::') and last_seg(cn) == 'channel':
                n += 1
                ty = (t.get('gargs') or ['?'])[0]
                is_delta = False
                adt = facts.adts.get(ty_head(ty))
                if adt:
                    fn = {f['name'] for v in adt['variants'] for f in v['fields']}
                    is_delta = {'joined', 'left'} <= fn or ty_head(ty) == DELTA
                key = 'watch-channel|%s' % ty_head(ty)
                if is_delta:
                    ctx.bad('C16.M2', key, site(b, t['cs']),
                            'deltas of type %s are published on a tokio watch channel, which keeps only the latest value: a subscriber that reads '
                            'slowly misses intermediate deltas, and one that subscribes late never hears of nodes that joined before' % ty)
                else:
                    ctx.ok('C16.M2', key, site(b, t['cs']), 'watch channel carries %s (a cumulative snapshot / non-delta value)' % ty_head(ty))
    ctx.floor('C16.M2', 'watch channels in the workspace', n, 1)


def check_M3(ctx, facts, sem=False):
    consumers = []
    for b in facts.bodies.values():
        if b.crate != 'datacake_eventual_consistency' or b.kind != 'coroutine' or b.d['promoted']:
            continue
        # bodies that destructure a MembershipChange: read its `left` / `joined` fields
        if any(body_reads_field(facts, b, f) for f in ('left', 'joined')):
            consumers.append(b)
    if not sem:
        # (with the consumer summary decided the consumers were found by role — the owners of a channel that carries the delta, in whatever
        #  form — and this count of bodies that read the delta's fields directly is not a floor of anything)
        ctx.floor('C16.M3', 'membership consumers in the store', len(consumers), 2)
    fields = [f['name'] for f in facts.adts[DELTA]['variants'][0]['fields']]
    all_ops = {}
    # (the per-consumer clauses below and M4 are decided by the consumer summary C16.SEM when it applies)
    for body in ([] if sem else sorted(consumers, key=lambda b: b.name)):
        flow = Flow(body)
        calls = list(body.calls())
        name = body.name.replace('datacake_eventual_consistency::', '').replace('::{closure#0}', '')
        # loops: into_iter over field f
        for f in ('left', 'joined'):
            its = []
            for b, t in calls:
                if cname(t) == 'core::iter::traits::collect::IntoIterator::into_iter':
                    l = op_local(t['args'][0])
                    for _b, _j, s in body.assigns():
                        if s['lhs']['l'] == l and s['rv']['k'] == 'use':
                            pl = op_place(s['rv']['op'])
                            if pl and body.local_ty(pl['l']) == DELTA and pl['p'] and isinstance(pl['p'][-1], dict) and fields[pl['p'][-1]['f']] == f:
                                its.append((b, t))
            if not its:
                ctx.bad('C16.M3', '%s|%s|loop' % (name, f), site(body), 'no loop over changes.%s' % f)
                continue
            ib, it = its[0]
            item_fw = flow.forward([it['dest']['l']], stop=[0])
            ops = []
            for b, t in calls:
                n = cname(t)
                if n and re.search(r'(BTreeMap|HashMap)::(insert|remove)$', n) and any(op_local(a) in item_fw for a in t['args'][1:]):
                    ops.append((last_seg(n), b, t))
                if n and n.endswith('KeyspaceTracker::remove_node') and any(op_local(a) in item_fw for a in t['args'][1:]):
                    ops.append(('remove', b, t))
            want = 'remove' if f == 'left' else 'insert'
            good = bool(ops) and all(o[0] == want for o in ops)
            ctx.ob('C16.M3', '%s|%s|operation' % (name, f), good, site(body, it['cs']),
                   'members in `%s` are only %s live-member state' % (f, 'removed from' if want == 'remove' else 'inserted into') if good else
                   'members in `%s` reach %s (expected only %s): the consumer\'s peer set drifts from the live membership' % (f, sorted({o[0] for o in ops}) or 'no map operation', want))
            all_ops.setdefault(body.name, []).extend(ops)
            # every iteration applies the operation: from the Some edge of this loop's next() no path reaches the
            # next iteration or leaves the loop without passing an operation
            nxts = [(b, t) for b, t in calls if cname(t) == 'core::iter::traits::iterator::Iterator::next'
                    and it['dest']['l'] in flow.backward([op_local(t['args'][0])])]
            if nxts and ops:
                nb = nxts[0][0]
                re_ = ResultEdges(body, flow, nb, include_option=True)
                starts = [e[1] for e in re_.ok]
                outer = [b for b, t in calls if cname(t) and 'try_recv' in cname(t)]
                R = body.reachable_from(starts, avoid=[o[1] for o in ops if o[0] == want])
                good3 = nb not in R and not (set(outer) & R)
                ctx.ob('C16.M3', '%s|%s|every-item' % (name, f), good3, site(body, it['cs']),
                       'every member in `%s` is applied (no iteration skips the %s)' % (f, want) if good3 else
                       'an iteration of the `%s` loop can finish or be abandoned without the %s: some members are silently skipped' % (f, want))
            # the loop is on every path of the membership arm: the into_iter block post-dominates the arm entry
            arm_disc = [b for b, j, s in body.assigns() if s['rv']['k'] == 'use' and op_place(s['rv']['op']) and
                        any(isinstance(e, dict) and e.get('n') == 'MembershipChange' for e in op_place(s['rv']['op'])['p'])]
            if arm_disc:
                ab = arm_disc[0]
                rets = [b for b, t in calls if cname(t) and 'try_recv' in cname(t)]
                good2 = body.must_pass([ab], [ib], rets) if ab != ib else True
                ctx.ob('C16.M3', '%s|%s|every-path' % (name, f), good2, site(body, it['cs']),
                       'the `%s` loop runs on every path through the membership arm' % f if good2 else 'the `%s` list can be skipped' % f)
    # M4: the consumers' live-member maps are driven ONLY by these events
    MUT = re.compile(r'(BTreeMap|HashMap)::(insert|remove|remove_entry|clear|retain|extend|drain|append|pop_first|pop_last|split_off|entry|'
                     r'get_mut|values_mut|iter_mut|extract_if|drain_filter|first_entry|last_entry)$')
    n_maps = 0
    for body in ([] if sem else sorted(consumers, key=lambda b: b.name)):
        ops = all_ops.get(body.name, [])
        name = body.name.replace('datacake_eventual_consistency::', '').replace('::{closure#0}', '')
        roots = set()
        for kind, b, t in ops:
            if kind == 'insert':
                roots |= referent_roots(body, op_local(t['args'][0]))
        if not roots:
            ctx.bad('C16.M4', '%s|live-map' % name, site(body), 'the live-member map of this consumer could not be identified (fail closed)')
            continue
        n_maps += 1
        allowed = {id(t) for _k, _b, t in ops}
        recvs = [b for b, t in body.calls() if cname(t) and re.search(r'recv|StreamExt::next', cname(t))]
        in_loop = body.reachable_from(recvs) if recvs else set(range(len(body.blocks)))
        offenders = []
        for b, t in body.calls():
            n = cname(t)
            if n and MUT.search(n) and id(t) not in allowed and t['args'] and op_local(t['args'][0]) is not None \
                    and referent_roots(body, op_local(t['args'][0])) & roots:
                offenders.append((last_seg(n), t))
        for b, _j, s_ in body.assigns():
            if s_['lhs']['l'] in roots and not s_['lhs']['p'] and b in in_loop:
                offenders.append(('assignment', s_))
        for b, t in body.calls():
            if t['dest']['l'] in roots and not t['dest']['p'] and b in in_loop:
                offenders.append(('assignment', t))
        good = not offenders
        ctx.ob('C16.M4', '%s|only-events-change-the-peer-set' % name, good, site(body, offenders[0][1].get('cs') if offenders else None),
               'the live-member map is changed only by inserting `joined` and removing `left` members' if good else
               'the live-member map is also changed by %s outside the joined/left handling: a node the membership layer still reports live is '
               'dropped from (or a departed one kept in) the consumer\'s peer set; the membership layer publishes a node again only when the '
               '(id, address) set changes, so replication stops addressing a live peer' % sorted({o[0] for o in offenders}))
    if not sem:
        ctx.floor('C16.M4', 'consumer live-member maps', n_maps, 2)
    else:
        check_M4_roots(ctx, facts, sem, MUT)
    # the two hand-over points cannot drop an event
    for hname in ('replication::distributor::TaskDistributor::membership_change', 'replication::poller::ReplicationHandle::membership_change'):
        hb_ = facts.body('datacake_eventual_consistency::' + hname)
        if hb_ is None:
            ctx.bad('C16.M3', 'handover|' + hname.split('::')[-2], '', hname + ' not found')
            continue
        lossy = lossy_sends(hb_)
        sends = [cname(t) for _b, t in hb_.calls() if cname(t) and re.match(r'^(flume|crossbeam_channel|tokio::sync::mpsc)', cname(t)) and 'send' in last_seg(cname(t))]
        ctx.ob('C16.M3', 'handover|' + hname.split('::')[-2], bool(sends) and not lossy, site(hb_),
               'membership events are handed over with %s' % sorted(set(sends)) if sends and not lossy else
               'membership events can be dropped at the hand-over (%s)' % (lossy or 'no channel send'))
    # forwarder: both services get every event
    fw = [b for b in facts.bodies.values() if b.crate == 'datacake_eventual_consistency' and b.kind == 'coroutine' and not b.d['promoted']
          and b.name.startswith('datacake_eventual_consistency::watch_membership_changes')]
    if not fw:
        # by role: the task that reads the membership stream and calls the consumers' hand-over methods
        fw = [b for b in facts.bodies.values() if b.crate == 'datacake_eventual_consistency' and b.kind == 'coroutine' and not b.d['promoted']
              and any(cname(t) and cname(t).endswith('::membership_change') for _b, t in b.calls())
              and any(cname(t) and cname(t).endswith('StreamExt::next') for _b, t in b.calls())]
    for b in fw:
        calls = list(b.calls())
        tgt = [(bb, t) for bb, t in calls if cname(t) and cname(t).endswith('::membership_change')]
        nxt = [bb for bb, t in calls if cname(t) and cname(t).endswith('StreamExt::next')]
        kinds = {cname(t) for bb, t in tgt}
        good = len(kinds) == 2 and nxt and all(b.must_pass([body_first_after(b, nxt[0])], [bb], nxt) for bb, t in tgt)
        ctx.ob('C16.M3', 'forwarder', bool(good), site(b),
               'every membership event is handed to both the distributor and the repair service' if good else
               'the forwarder does not hand every event to both consumers (%s)' % sorted(last_seg(k) for k in kinds))
    if not fw:
        ctx.bad('C16.M3', 'forwarder', '', 'store-side watch_membership_changes not found')


def check_M4_roots(ctx, facts, info, MUT):
    """M4 beside the consumer summary: the state handed to the observation points (the arguments that held the peers in the
    interpretation) is mutated only inside the arm that handles the membership message — value-dependent trimming outside it (a cap
    on the peer count, a periodic clear) cannot show on a small scripted history"""
    n = 0
    for defp, inf in sorted(info.items()):
        body = facts.bodies.get(defp)
        if body is None:
            continue
        name = body.name.replace('datacake_eventual_consistency::', '').replace('::{closure#0}', '')
        calls = list(body.calls())
        roots = set()
        for b, t in calls:
            for callee, i in inf['peer_args']:
                if strip_generics(t.get('callee') or '') == callee or cname(t) == callee:
                    if i < len(t['args']) and op_local(t['args'][i]) is not None:
                        roots |= referent_roots(body, op_local(t['args'][i]))
        roots = {r for r in roots if r > body.argc}
        if not roots:
            ctx.bad('C16.M4', '%s|live-map' % name, site(body), 'the state this consumer hands to its workers could not be located in its loop (fail closed)')
            continue
        n += 1
        arm = [b for b, j, s in body.assigns() for pl in rv_places(s['rv'])
               if any(isinstance(e, dict) and e.get('n') == inf['variant'] for e in pl['p'])]
        recvs = [b for b, t in calls if cname(t) and re.search(r'recv|StreamExt::next|Interval::tick', cname(t))]
        in_loop = body.reachable_from(recvs) if recvs else set(range(len(body.blocks)))
        def in_arm(b):
            return any(a == b or body.dominates(a, b) for a in arm)
        offenders = []
        for b, t in calls:
            nm = cname(t)
            if not nm or b not in in_loop or in_arm(b):
                continue
            touched = False
            for i, a in enumerate(t['args']):
                l = op_local(a)
                if l is None or not (referent_roots(body, l) & roots):
                    continue
                if (i == 0 and MUT.search(nm)) or body.local_ty(l).startswith('&mut'):
                    touched = True
            if touched and not any((strip_generics(t.get('callee') or '') == c or nm == c) for c, _i in inf['peer_args']):
                offenders.append((last_seg(nm), t))
        for b, _j, s_ in body.assigns():
            if s_['lhs']['l'] in roots and not s_['lhs']['p'] and b in in_loop and not in_arm(b):
                offenders.append(('assignment', s_))
        for b, t in calls:
            if t['dest']['l'] in roots and not t['dest']['p'] and b in in_loop and not in_arm(b):
                offenders.append(('assignment', t))
        good = not offenders
        ctx.ob('C16.M4', '%s|only-events-change-the-peer-set' % name, good, site(body, offenders[0][1].get('cs') if offenders else None),
               'the peer state handed to the workers is changed only inside the membership arm' if good else
               'the peer state is also changed by %s outside the membership handling: a node the membership layer still reports live is '
               'dropped from (or a departed one kept in) the consumer\'s peer set; the membership layer publishes a node again only when the '
               '(id, address) set changes, so replication stops addressing a live peer' % sorted({o[0] for o in offenders}))
    ctx.floor('C16.M4', 'consumer peer states', n, 2)


def body_first_after(body, next_block):
    flow = Flow(body)
    return nxt_some_target(body, next_block, flow)


def body_reads_field(facts, body, fname):
    fields = [f['name'] for f in facts.adts[DELTA]['variants'][0]['fields']]
    for _b, _j, s in body.assigns():
        for pl in rv_places(s['rv']):
            if body.local_ty(pl['l']) == DELTA and pl['p'] and isinstance(pl['p'][-1], dict) and 'f' in pl['p'][-1] \
                    and fields[pl['p'][-1]['f']] == fname:
                return True
    return False


def check_M7(ctx, facts, rule='C16.M7'):
    """M7: node ids are a small integer type and the whole range is legal (0 and the type's MAX included).  Code on the watcher's side of the
    node crate that walks the id space with an EXCLUSIVE range whose end is the MAX of the element type never visits that id: a member with
    that id takes part in selection and statistics but never appears in `joined` / `left`.  Expected count zero.  (Round 8, C16h: a 256-slot
    table walked with `NodeId::MIN..NodeId::MAX`.)"""
    MAXV = {'u8': 255, 'u16': 65535, 'u32': 4294967295, 'u64': 18446744073709551615, 'usize': 18446744073709551615}
    n = 0
    hits = []
    for b in facts.bodies.values():
        if b.crate != 'datacake_node' or b.d['promoted'] or b.derived:
            continue
        for _b, _j, s_ in b.assigns():
            rv = s_['rv']
            if rv['k'] == 'aggregate' and rv.get('agg') == 'adt' and strip_generics(rv['adt']) == 'core::ops::range::Range' and len(rv['ops']) == 2:
                n += 1
                c = op_const(rv['ops'][1])
                if c and 'val' in c and c.get('ty') in MAXV and str(c['val']) == str(MAXV[c['ty']]):
                    hits.append((b, s_, c['ty']))
    for b, s_, ty in hits:
        ctx.bad(rule, 'exclusive-range-to-max|%s' % strip_generics(b.name), site(b, s_['cs']),
                'an exclusive range ends at %s::MAX: the walk never visits the id %s::MAX, although it is a legal node id — a member with that id is selected and counted '
                'but never reported as joined or departed (use an inclusive range)' % (ty, ty))
    if not hits:
        ctx.ok(rule, 'exclusive-range-to-max|none', '', '%d exclusive range(s) built in the node crate, none ends at the MAX of its element type' % n, nontrivial=False)


def check(ctx):
    facts = ctx.facts('prod')
    import carrier_abs
    carrier_abs.check_member_constructor(ctx, facts, 'C16.M5')
    # M6: the watcher awaits the selector actor (`set_nodes`) before it publishes each delta: the actor interpreted end to end — in
    # particular it outlives a requester that went away (selactor_abs).  Only the summary is run here; its structural fallback is C15's.
    import selactor_abs
    selactor_abs.check_selector_actor(ctx, facts, 'C16.M6.SEM')
    if DELTA not in facts.adts:
        ctx.bad('C16.M1', 'delta-type', '', 'MembershipChange ADT not found (fail closed)')
        return
    # SEM: the node's membership watcher interpreted over a scripted history of snapshots (watcher_abs): the published deltas are
    # exactly the differences between consecutive snapshots; subsumes M1, which is evaluated only when a construct is not modelled
    import watcher_abs
    if not watcher_abs.check_watcher(ctx, facts, 'C16.SEM'):
        check_M1(ctx, facts)
    check_M2(ctx, facts)
    check_M7(ctx, facts)
    # SEM: each consumer's service loop interpreted over a scripted membership history (consumer_abs); subsumes the per-consumer
    # clauses of M3 and M4, which are evaluated only when a construct is not modelled
    import consumer_abs
    sem = consumer_abs.check_consumers(ctx, facts, 'C16.SEM')
    check_M3(ctx, facts, sem=sem or False)
