"""C01.S3.SEM: the supervision of one repair exchange (`begin_keyspace_sync`), interpreted (P-TRACE).

`begin_keyspace_sync` spawns the removal task and the modification task and then watches the modification task's progress on a
timer.  The function is interpreted — whatever helpers, enums or loops it is written with — against a scripted progress history
(per timer tick: still running / done / expired) and against both outcomes of the removal task; spawning, the timer, joining a
task and the two questions to the progress watcher (`has_expired`, `is_done`) are modelled effects.  Decided per scenario:

  the exchange reports Ok  <=>  the modification task was seen DONE, was never seen EXPIRED, and the removal task — joined
                                before the return — succeeded.

That is the bookkeeping C01's repair clause rests on: `repair_members` records the peer's change stamp as synchronised exactly
when this function returns Ok, so an Ok for an exchange that did not finish makes the next poll skip the peer.  The structural
clauses of S3 (removal-joined, done-before-ok, expiry-is-error) are the fallback when a construct is outside the vocabulary."""
import absint
from absint import Interp, Order, Cell, Unmodelled, UNIT, mk_bool
from facts import last_seg, ty_head
import actor_abs
from actor_abs import World, ok, err, upvar_types

EC = 'datacake_eventual_consistency'

SCENARIOS = [
    (['running', 'done'], True, 'the modification task finishes on the second tick, removals succeed'),
    (['done'], True, 'the modification task is done at the first tick, removals succeed'),
    (['running', 'running', 'done'], True, 'the modification task finishes on the third tick, removals succeed'),
    (['done'], False, 'the modification task is done, the removal task fails'),
    (['running', 'expired'], True, 'the modification task stops making progress (expired on the second tick), removals succeed'),
    (['expired'], True, 'the modification task has expired at the first tick, removals succeed'),
    (['expired'], False, 'the modification task has expired, the removal task fails'),
]


class SyncWorld(World):
    def __init__(self, script, removal_ok):
        World.__init__(self, hooks=[self.hook])
        self.script = list(script)
        self.removal_ok = removal_ok
        self.tick = 0
        self.nspawn = 0

    def state(self):
        if self.tick == 0:
            return 'running'          # (asked before the first tick: nothing is known yet)
        return self.script[min(self.tick, len(self.script)) - 1]

    def hook(self, world, interp, name, args, t, body):
        seg = last_seg(name)
        if name in ('tokio::task::spawn::spawn', 'tokio::task::spawn', 'tokio::spawn', 'tokio::runtime::handle::Handle::spawn') and args:
            f = interp.deref_all(args[-1])
            what = f[1] if f is not None and f[0] == 'closure' else str(f[:2] if f else f)
            self.nspawn += 1
            tags = []

            def dig(v, d=0):
                v = interp.deref_all(v)
                if v is None or d > 5:
                    return
                if v[0] == 'opaque' and str(v[1]).startswith('doc:'):
                    tags.append(v[1][4:])          # (an entry taken out of its list: a Single(entry) variant of a private batch enum)
                    return
                if v[0] == 'vec':
                    for x in v[1]:
                        x = interp.deref_all(x.v if isinstance(x, Cell) else x)
                        if x is not None and x[0] == 'opaque' and str(x[1]).startswith('doc:'):
                            tags.append(x[1][4:])
                elif v[0] in ('adt', 'closure', 'tuple'):
                    for c in (v[3] if v[0] == 'adt' else v[2] if v[0] == 'closure' else v[1]):
                        dig(c.v, d + 1)
            dig(f)
            self.trace.append(('spawn', self.nspawn, what, tuple(sorted(set(tags)))))
            return ('future', 'join', self.nspawn, what)
        if name.startswith(EC) and seg == 'has_expired' and 'Progress' in name:
            v = self.state() == 'expired'
            self.trace.append(('asked-expired', v))
            return mk_bool(v)
        if name.startswith(EC) and seg == 'is_done' and 'Progress' in name:
            v = self.state() == 'done'
            self.trace.append(('asked-done', v))
            return mk_bool(v)
        if name.startswith('tokio::time::interval::') and seg in ('interval', 'interval_at'):
            return ('opaque', 'interval')
        if name.startswith('tokio::time::interval::Interval::') and seg == 'tick':
            return ('future', 'tick')
        if name.startswith('tokio::time::interval::Interval::'):
            return UNIT
        if name.startswith(EC) and seg == 'get_or_create_keyspace':
            return ('future', 'ready', ('opaque', 'keyspace'))
        if name.startswith(('datacake_node::', 'datacake_rpc::', 'datacake_crdt::', '<datacake_node::', '<datacake_rpc::', '<datacake_crdt::')) and not t['dest']['p']:
            # the other crates of the workspace (network, clock, RPC client) take no part in the supervision: an unknown value of the type
            ty = body.local_ty(t['dest']['l'])
            if ty == 'bool':
                return ('bool', None)
            if ty == '()':
                return UNIT
            return ('ref', Cell(('opaque', 'result-of:' + name))) if ty.startswith('&') else ('opaque', 'result-of:' + name)
        return None

    def poll(self, interp, pin, f):
        if f is not None and f[0] == 'future' and f[1] == 'tick':
            self.tick += 1
            if self.tick > len(self.script) + 2:
                raise Unmodelled('the supervision loop does not end on the scripted history')
            self.trace.append(('tick', self.tick))
            return ('opaque', 'instant')
        if f is not None and f[0] == 'future' and f[1] == 'join':
            self.trace.append(('joined', f[2], f[3]))
            removal = 'removal' in str(f[3]).lower() or (f[2] == 1 and not any('removal' in str(e[2]).lower() for e in self.trace if e[0] == 'spawn'))
            if removal and not self.removal_ok:
                return ok(err(('opaque', 'removal-error')))
            return ok(ok(UNIT))
        return World.poll(self, interp, pin, f)


def check_supervision(ctx, facts, rule, only_routing=False):
    from orswot_abs import _fallback
    try:
        ents = [b for b in facts.bodies.values() if b.crate == EC and b.kind == 'coroutine' and b.name.endswith('::begin_keyspace_sync::{closure#0}') and b.cfg is not None]
        if len(ents) != 1:
            raise Unmodelled('begin_keyspace_sync not found')
        entry = ents[0]
        ups = upvar_types(entry)
        out = []
        for script, removal_ok, label in (SCENARIOS[:1] if only_routing else SCENARIOS):
            def run(choices, script=script, removal_ok=removal_ok):
                world = SyncWorld(script, removal_ok)
                it = Interp(facts, Order({}), opaque_call=world.call, step_limit=200000)
                it.poll_hook = world.poll
                it.unknown_call = actor_abs.lenient_unknown
                it.opaque_fields = True
                it.choices = list(choices)
                n = max(ups) + 1 if ups else 0
                # the two lists are told apart by NAME: a parameter called removed / modified, or a field of that name in a struct parameter
                fnb = facts.bodies.get(entry.name[:-len('::{closure#0}')])
                pnames = fnb.local_names() if fnb is not None else {}
                list_names = [pnames.get(i) for i in range(1, (fnb.argc if fnb is not None else 0) + 1)
                              if fnb is not None and ('SmallVec<' in fnb.local_ty(i) or 'Vec<' in fnb.local_ty(i)) and 'DocumentMetadata' in fnb.local_ty(i)]
                seen_lists = []

                def mk(ty, fname=None):
                    if ty.startswith('&'):
                        inner = ty[1:].strip()
                        inner = inner[4:] if inner.startswith('mut ') else inner
                        return ('ref', Cell(mk(inner)))
                    if ty in ('alloc::string::String', 'str'):
                        return ('key', 'ks')
                    if (ty.startswith('smallvec::SmallVec<') or ty.startswith('alloc::vec::Vec<')) and 'DocumentMetadata' in ty:
                        nm = fname
                        if nm is None:
                            nm = list_names[len(seen_lists)] if len(seen_lists) < len(list_names) else None
                            seen_lists.append(nm)
                        return ('vec', [('opaque', 'doc:%s' % nm)])
                    if ty.startswith('smallvec::SmallVec<') or ty.startswith('alloc::vec::Vec<'):
                        return ('vec', [('opaque', 'doc')])
                    a_ = facts.adts.get(ty_head(ty))
                    if a_ is not None and a_['kind'] == 'struct' and a_['def'].startswith(EC) and any('DocumentMetadata' in f_['ty'] for f_ in a_['variants'][0]['fields']):
                        return ('adt', ty_head(ty), 0, [Cell(mk(f_['ty'], f_['name'])) for f_ in a_['variants'][0]['fields']])
                    return actor_abs.build_value(facts, ty, lambda t_: None)
                upv = {i: mk(ty) for i, ty in sorted(ups.items())}
                st = ('closure', entry.defp, [Cell(upv.get(i, ('opaque', 'u'))) for i in range(n)])
                r = it.deref_all(it.run_body(entry, [st, ('opaque', 'cx')]))
                return it.oracle_log, (r, list(world.trace))
            out.append((script, removal_ok, label, absint.explore(run)))
    except (Unmodelled, absint.NeedChoice, absint.PanicPath, IndexError, TypeError, KeyError, AttributeError, RecursionError) as e:
        return _fallback(ctx, rule, e)
    site_ = '%s:%s' % (entry.file, entry.line)
    for script, removal_ok, label, results in out:
        want_ok = script[-1] == 'done' and 'expired' not in script and removal_ok
        bad = []
        seen = 0
        for log, res in results:
            if res and res[0] == 'panic':
                bad.append('a path panics')
                continue
            r, trace = res
            if r is None or r[0] != 'adt' or r[1] != 'core::result::Result':
                bad.append('the function does not return a Result')
                continue
            seen += 1
            got_ok = r[2] == 0
            joined = [e for e in trace if e[0] == 'joined']
            spawned = [e for e in trace if e[0] == 'spawn']
            if len(spawned) < 2:
                bad.append('only %d task(s) are spawned (the removal and the modification task are expected)' % len(spawned))
            elif got_ok and not want_ok:
                why = ('the modification task had EXPIRED' if 'expired' in script else 'the removal task FAILED' if not removal_ok else 'the modification task was never seen done')
                bad.append('Ok is reported although %s: the peer\'s change stamp is recorded as synchronised and the next poll skips it' % why)
            elif not got_ok and want_ok:
                bad.append('an error is reported although the modification task finished and the removals succeeded (the exchange is repeated for ever)')
            elif got_ok and not joined:
                bad.append('Ok is reported without waiting for the removal task: its failure is never seen')
            elif got_ok and not any(e == ('asked-done', True) for e in trace):
                bad.append('Ok is reported without the modification task having been seen done')
        if (script, removal_ok) == (['running', 'done'], True):
            # routing: the removal task is started with the list called `removed`, the modification task with the list called `modified`
            rbad = []
            for log, res in results:
                if res and res[0] == 'panic':
                    continue
                _r, trace = res
                for e in trace:
                    if e[0] != 'spawn':
                        continue
                    want_ = 'removed' if 'removal' in str(e[2]).lower() else 'modified' if 'modified' in str(e[2]).lower() else None
                    if want_ is not None and e[3] != (want_,):
                        rbad.append('%s is started with the list(s) %s, expected the list called `%s`: removals are fetched as documents / modifications applied as deletes'
                                    % (str(e[2]).rsplit('::', 2)[-2] if '::' in str(e[2]) else e[2], list(e[3]) or 'none of the two', want_))
            ctx.ob(rule, 'routing|each task gets its own list', seen > 0 and not rbad, site_,
                   'handle_removals is started with `removed`, handle_modified with `modified`' if seen > 0 and not rbad else (rbad[0] if rbad else 'no path'))
        if only_routing:
            continue
        good = seen > 0 and not bad
        ctx.ob(rule, 'supervision|%s' % label, good, site_,
               '%s: %s is reported' % (label, 'Ok' if want_ok else 'an error') if good else '%s: %s' % (label, bad[0] if bad else 'no path'))
    return True
