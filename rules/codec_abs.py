"""C19.V6 / C08.P6: the state's decode / encode entry points add nothing of their own (P-TRACE).

`OrSWotSet::from_bytes` is how a peer's keyspace state enters a node, `as_bytes` how it leaves.  C19 asks that the receiver observes
the sender's state — same live ids, same tombstones, same version stamps and purge cut-offs: a copy that "accepts what the sender
refuses" is not the sender's state.  Both functions are interpreted with the rkyv entry points as effects:

  from_bytes   returns exactly the value the validating deserialiser produced — nothing is called on it, no field of it is
               rewritten — and the deserialiser's refusal as an error;
  as_bytes     hands `self`, as it is, to the serialiser and returns the serialiser's bytes.

(Round 6, C08f: a from_bytes that discarded the received purge cut-offs and recomputed them from the entries still present lost the
cut-off of every origin whose only trace was a purged tombstone: the copy accepts that origin's older operations again.)"""
from absint import Interp, Order, Cell, Unmodelled, NeedChoice, PanicPath, UNIT
from facts import last_seg
from actor_abs import ok, err

CR = 'datacake_crdt'
IDENT = ('clone', 'into', 'from', 'deref', 'as_ref', 'borrow', 'to_vec', 'into_vec', 'to_owned', 'as_slice', 'into_boxed_slice', 'into_inner')


def tagged(interp, v, prefix, depth=0):
    v = interp.deref_all(v)
    if v is None or depth > 6:
        return False
    if v[0] == 'opaque' and str(v[1]).startswith(prefix):
        return True
    if v[0] in ('adt', 'tuple', 'closure'):
        return any(tagged(interp, c.v, prefix, depth + 1) for c in (v[3] if v[0] == 'adt' else v[2] if v[0] == 'closure' else v[1]))
    return False


def check_state_codec(ctx, facts, rule):
    from orswot_abs import _fallback, Roles
    try:
        roles = Roles(facts)
        fb = roles.method(facts, 'from_bytes')
        ab = roles.method(facts, 'as_bytes')
        if fb is None or ab is None or fb.cfg is None or ab.cfg is None:
            raise Unmodelled('OrSWotSet::from_bytes / as_bytes not compiled in this configuration')
        # ---- from_bytes -------------------------------------------------------------------------------------------
        bad = []
        for answer in ('ok', 'err'):
            touched = []

            def hook(interp, name, args, t, b, answer=answer, touched=touched):
                seg = last_seg(name)
                if name.startswith('rkyv::') and (seg.startswith('from_bytes') or seg.startswith('check_archived') or seg in ('deserialize', 'archived_root')):
                    if 'unchecked' in seg or seg == 'archived_root':
                        touched.append('an UNCHECKED rkyv entry point (%s)' % seg)
                    return ok(('opaque', 'decoded-state')) if answer == 'ok' else err(('opaque', 'refused'))
                if any(tagged(interp, a, 'decoded-state') for a in args):
                    if seg in IDENT and not name.startswith(CR):
                        return args[0]
                    if not (name.startswith('core::result::') or name.startswith('core::ops::try_trait') or name.startswith('core::convert::') or name.startswith('core::option::')):
                        touched.append(last_seg(name.rsplit('::', 1)[0]) + '::' + seg if '::' in name else name)
                        tyd = b.local_ty(t['dest']['l']) if not t['dest']['p'] else '()'
                        return UNIT if tyd == '()' else ('bool', None) if tyd == 'bool' else ('opaque', 'derived')
                return None
            it = Interp(facts, Order({}), opaque_call=hook, step_limit=50000)
            it.opaque_fields = True
            it.choices = []
            try:
                r = it.deref_all(it.run_body(fb, [('ref', Cell(('opaque', 'bytes-in')))]))
            except (Unmodelled, NeedChoice, PanicPath, IndexError, TypeError, KeyError, AttributeError):
                if not touched:
                    raise
                r = None
            if touched:
                bad.append('the decoded state is passed through %s before it is returned: the receiver does not hold the state the sender serialised' % ', '.join(sorted(set(touched))[:3]))
                continue
            if r is None or r[0] != 'adt' or r[1] != 'core::result::Result':
                raise Unmodelled('from_bytes does not return a Result')
            if answer == 'ok':
                pv = it.deref_all(r[3][0].v) if r[3] else None
                if r[2] != 0 or pv != ('opaque', 'decoded-state'):
                    bad.append('a state the deserialiser accepted is not returned as it was decoded')
            elif r[2] != 1:
                bad.append('bytes the validating deserialiser refused are returned as a state')
        ctx.ob(rule, 'state-codec|from_bytes', not bad, '%s:%s' % (fb.file, fb.line),
               'from_bytes returns exactly what the validating deserialiser produced (and its refusal as an error)' if not bad else 'OrSWotSet::from_bytes: ' + bad[0])
        # ---- as_bytes ---------------------------------------------------------------------------------------------
        bad = []
        seen = []

        def hook2(interp, name, args, t, b):
            seg = last_seg(name)
            if name.startswith('rkyv::') and seg.startswith('to_bytes'):
                a0 = interp.deref_all(args[0]) if args else None
                seen.append(a0)
                return ok(('opaque', 'encoded-bytes'))
            if args and tagged(interp, args[0], 'encoded-bytes') and seg in IDENT + ('into_vec', 'to_vec', 'as_slice'):
                return args[0]
            if args and tagged(interp, args[0], 'the-set'):
                if seg in IDENT and not name.startswith(CR):
                    return args[0]
                seen.append(('touched', name))
            return None
        it = Interp(facts, Order({}), opaque_call=hook2, step_limit=50000)
        it.opaque_fields = True
        r = it.deref_all(it.run_body(ab, [('ref', Cell(('opaque', 'the-set')))]))
        ser = [s for s in seen if not (isinstance(s, tuple) and s and s[0] == 'touched')]
        tch = [s[1] for s in seen if isinstance(s, tuple) and s and s[0] == 'touched']
        if len(ser) != 1 or ser[0] != ('opaque', 'the-set'):
            bad.append('the serialiser is not handed the set itself (%s)' % (ser[:1],))
        if tch:
            bad.append('the set is passed through %s on its way to the serialiser' % ', '.join(sorted(set(last_seg(x) for x in tch))[:3]))
        pv = it.deref_all(r[3][0].v) if r is not None and r[0] == 'adt' and r[1] == 'core::result::Result' and r[2] == 0 and r[3] else None
        if not tagged(it, pv, 'encoded-bytes'):
            bad.append('the bytes returned are not the serialiser\'s output')
        ctx.ob(rule, 'state-codec|as_bytes', not bad, '%s:%s' % (ab.file, ab.line),
               'as_bytes hands the set as it is to the serialiser and returns its bytes' if not bad else 'OrSWotSet::as_bytes: ' + bad[0])
        return True
    except (Unmodelled, NeedChoice, PanicPath, IndexError, TypeError, KeyError, AttributeError, RecursionError) as e:
        return _fallback(ctx, rule, e)
