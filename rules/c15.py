"""C15 — replica selection yields enough distinct live peers or reports too few.  DESIGN §5 C15."""
from analysis import *  # noqa
from facts import strip_generics, op_local, op_const, const_int, last_seg, ty_head
from engine import site
import c02

CONFIGS = ['prod']
EXPLANATION = (
    'N8: selections are owned by the actor - no field of NodeSelectorHandle is a collection of node addresses or a (shared) cell holding one. '
    'N9: the address the selector is started with as its own node and the address the local member is recorded under are read from the same field of the connection configuration (dataflow through ClusterInfo). '
    'N7: the membership record is a plain carrier — ClusterMember::new stores id, address and data centre exactly as given (the selector filters the local node by comparing addresses, the consumers key their peers by id). '
    'SEM (abstract interpretation of the MIR by the checker\'s own interpreter, no code of the repository runs): DCAwareSelector::select_nodes, with select_n_nodes and '
    'NodeCycler, is interpreted on a bounded family of data-centre layouts (quick: 21 layouts up to 4 data centres, every rotating-cursor position = whatever selections were '
    'made before, the local node first / last in the first / last data centre, all 8 levels, every random draw of data centres; thorough: up to 4 x 4 nodes). Node '
    'addresses are opaque names, counts are concrete integers. Per case: Ok(sel) must hold no duplicates, only members other than the local node, at least as many as the '
    'level requires (exactly n for One / Two / Three); NotEnoughNodes only when fewer other live nodes exist than required. This is exhaustive over the family, not a proof '
    'for every layout; it subsumes N3-N6 below, which are evaluated only when a construct is outside the interpreter\'s vocabulary. '
    'N1.SEM: the chain membership snapshot -> watcher -> set_nodes -> selector actor -> select_nodes interpreted end to end over a queue of updates and requests: every layout the '
    'selector is shown is exactly the membership of one update, every request is answered with a selection made from the LATEST update (never one cached before it); subsumes N1 / N2. '
    'Structural clauses (fallback): N1 a membership update REPLACES the selector\'s per-data-centre layout (wholesale assignment, or clear / retain '
    'before the inserts) so that departed data centres are never selected again; N2 the result cache is cleared on every path through the '
    'update arm; N3 every bulk collection site of DCAwareSelector::select_nodes filters the local node (the iterator type handed to '
    'extend contains a Filter whose closure is `item != local_node`); N4 select_n_nodes returns Ok only on the edge selected.len() >= n. '
    'N5 the candidate iterator of every bulk collection site carries no skipping adaptor (Skip / SkipWhile / StepBy / TakeWhile) and no filter other than '
    'the local-node one: every other live node of the data centre is a candidate, whatever selections were made before. N6 select_n_nodes reports NotEnoughNodes only after an unfiltered walk over every data centre of the layout during which nodes can '
    'still be selected (the share-based first pass alone is not exhaustive: finding 13, fixed). NOT decided: the arithmetic of the shares '
    '(value level), absence of duplicates, exact n.')
ASSUMPTIONS = ['a data-centre node list handed to the selector has no duplicate addresses']

NS = 'datacake_node::nodes_selector::'


def root_local(body, flow, local):
    """the non-reference local a (chain of) reference(s) points to"""
    return sorted(referent_roots(body, local))


def check_actor(ctx, facts, rule='C15.N1.SEM'):
    # SEM: snapshot -> watcher -> set_nodes -> actor -> select_nodes, end to end (selactor_abs): every request is answered from the layout of
    # the latest membership update, exactly its members by data centre, never from a selection cached before it.  Subsumes N1 (layout
    # replaced) and N2 (cache cleared), which are evaluated only when a construct is not modelled.
    import selactor_abs
    if selactor_abs.check_selector_actor(ctx, facts, rule):
        return
    actors = [b for b in facts.bodies.values() if b.crate == 'datacake_node' and b.kind == 'coroutine' and not b.d['promoted']
              and any(cname(t) == NS + 'NodeSelector::select_nodes' for _b, t in b.calls())
              and any(cname(t) and 'recv_async' in cname(t) for _b, t in b.calls())]
    if not actors:
        ctx.bad('C15.N1', 'actor', '', 'selector actor loop not found (fail closed)')
        return
    body = actors[0]
    direct = Flow(body, only=set())
    flow = Flow(body)
    calls = list(body.calls())
    sel = [(b, t) for b, t in calls if cname(t) == NS + 'NodeSelector::select_nodes'][0]
    # the layout map: the BTreeMap local handed to select_nodes by &mut
    M = None
    for a in sel[1]['args']:
        l = op_local(a)
        if l is None:
            continue
        for r in root_local(body, direct, l):
            if ty_head(body.local_ty(r)) == 'alloc::collections::btree::map::BTreeMap':
                M = r
    def strip_ref(ty):
        ty = ty.strip()
        while ty.startswith('&'):
            ty = ty[1:].lstrip()
            if ty.startswith('mut '):
                ty = ty[4:]
            if ty.startswith("'") and ' ' in ty:
                ty = ty.split(' ', 1)[1]
        return ty
    M_ty = None
    if M is None:
        # the layout lives in a field of the actor's state struct: identify it by its type (the one map handed to select_nodes)
        for a in sel[1]['args']:
            l = op_local(a)
            if l is not None and ty_head(strip_ref(body.local_ty(l))) == 'alloc::collections::btree::map::BTreeMap':
                M_ty = strip_ref(body.local_ty(l))
        if M_ty is None:
            ctx.bad('C15.N1', 'layout-map', site(body), 'cannot identify the layout map handed to select_nodes (fail closed)')
            return
    hdr = [b for b, t in calls if cname(t) and 'recv_async' in cname(t)]

    def on_M(t):
        l = op_local(t['args'][0]) if t['args'] else None
        if l is None:
            return False
        if M is not None:
            return M in referent_roots(body, l)
        return strip_ref(body.local_ty(l)) == M_ty

    def place_is(pl, ty_, root):
        if root is not None:
            return pl['l'] == root and not pl['p']
        if not pl['p']:
            return strip_ref(body.local_ty(pl['l'])) == ty_ and not body.local_ty(pl['l']).startswith('&')
        last = pl['p'][-1]
        return isinstance(last, dict) and last.get('ty') == ty_
    inserts = [(b, t) for b, t in calls if cname(t) == 'alloc::collections::btree::map::BTreeMap::insert' and on_M(t)]
    resets = [(b, t) for b, t in calls if cname(t) in ('alloc::collections::btree::map::BTreeMap::clear', 'alloc::collections::btree::map::BTreeMap::retain') and on_M(t)]
    assigns = [(b, s) for b, j, s in body.assigns() if place_is(s['lhs'], M_ty, M) and b != 0
               and b in body.reachable_from(hdr)]
    assigns += [(b, t) for b, t in calls if place_is(t['dest'], M_ty, M) and b in body.reachable_from(hdr) and b not in hdr and b != 0
                and cname(t) != 'alloc::collections::btree::map::BTreeMap::new']
    # the update arm = the switch edge (on the op discriminant) dominating the map writes
    arm = None
    writes = [b for b, t in inserts] + [b for b, s in assigns]
    for i, blk in enumerate(body.blocks):
        t = blk['t']
        if t['k'] != 'switch' or blk['cleanup']:
            continue
        for tgt in body.succ(i):
            if writes and all(body.edge_dominates((i, tgt), w) for w in writes) and not body.edge_dominates((i, tgt), sel[0]):
                if arm is None or body.dominates(i, arm[0]):
                    arm = (i, tgt)
    if arm is None:
        ctx.bad('C15.N1', 'update-arm', site(body), 'the membership-update arm writing the layout map was not found (fail closed)')
        return
    if assigns and not inserts:
        ctx.ok('C15.N1', 'layout-replaced', site(body), 'the layout map is assigned wholesale on a membership update')
    else:
        good = False
        for rb, rt in resets:
            # the reset precedes every insert: it dominates the insert blocks and is not inside the insert loop
            if body.edge_dominates(arm, rb) and all(body.dominates(rb, ib) for ib, _t in inserts) and \
                    not any(rb in body.reachable_from([ib], avoid=hdr) for ib, _t in inserts):
                good = True
        for ab, _s in assigns:
            if body.edge_dominates(arm, ab) and all(body.dominates(ab, ib) for ib, _t in inserts):
                good = True
        ctx.ob('C15.N1', 'layout-replaced', good, site(body, inserts[0][1]['cs'] if inserts else None),
               'the layout map is cleared / reassigned before the new data centres are inserted' if good else
               'a membership update only INSERTS the data centres it names into the layout map: a data centre that disappeared from the '
               'membership stays in the map and its nodes keep being selected')
    # ---- N2 cache --------------------------------------------------------------------
    C = None
    C_ty = None
    for b, t in calls:
        if cname(t) == 'std::collections::hash::map::HashMap::insert' and sel[1]['dest']['l'] in flow.backward([op_local(t['args'][-1])]):
            for r in root_local(body, direct, op_local(t['args'][0])):
                if ty_head(body.local_ty(r)) == 'std::collections::hash::map::HashMap':
                    C = r
            if C is None and ty_head(strip_ref(body.local_ty(op_local(t['args'][0])))) == 'std::collections::hash::map::HashMap':
                C_ty = strip_ref(body.local_ty(op_local(t['args'][0])))
    if C is None and C_ty is None:
        ctx.ok('C15.N2', 'cache', site(body), 'no result cache found (nothing to invalidate)', nontrivial=False)
    else:
        def on_C(t):
            l = op_local(t['args'][0])
            if C is not None:
                return C in referent_roots(body, l)
            return strip_ref(body.local_ty(l)) == C_ty
        clears = [b for b, t in calls if cname(t) == 'std::collections::hash::map::HashMap::clear' and on_C(t)]
        clears += [b for b, j, s in body.assigns() if place_is(s['lhs'], C_ty, C) and body.edge_dominates(arm, b)]
        good = bool(clears) and body.must_pass([arm[1]], clears, hdr)
        ctx.ob('C15.N2', 'cache-cleared', good, site(body),
               'the selection cache is cleared on every path through the membership-update arm' if good else
               'a membership update can complete without clearing the selection cache: departed nodes are served from the cache')


def check_N3(ctx, facts):
    sn = [b for b in facts.bodies.values() if b.crate == 'datacake_node' and not b.d['promoted']
          and b.name == '<datacake_node::nodes_selector::DCAwareSelector as datacake_node::nodes_selector::NodeSelector>::select_nodes']
    if not sn:
        ctx.bad('C15.N3', 'anchor', '', 'DCAwareSelector::select_nodes not found (fail closed)')
        return
    root = sn[0]
    grp = facts.group(root)
    # closure type string -> closure body, for closures created anywhere in the group
    by_ty = {}
    for g in grp:
        for blk, s, cdef, ops in closure_aggregates(g):
            by_ty[g.local_ty(s['lhs']['l'])] = (g, cdef, ops)

    def is_local_node_filter(g, cdef, ops):
        cb = facts.bodies.get(cdef)
        if cb is None or cb.argc != 2:
            return False
        # captured operand traces to the local_node parameter (param 2 of select_nodes) by debug name
        up = cb.upvar_names()
        if 'local_node' not in up.values():
            return False
        idx = [k for k, v in up.items() if v == 'local_node'][0]
        cflow = Flow(cb)
        for c in all_comparisons(cb):
            if c['rel'] != '!=' or c['lhs'] is None or c['rhs'] is None:
                continue
            la, lb = cflow.backward([c['lhs']]), cflow.backward([c['rhs']])
            def from_up(back):
                for _b, _j, s in cb.assigns():
                    if s['lhs']['l'] in back:
                        for pl in rv_places(s['rv']):
                            if pl['l'] == 1 and any(isinstance(e, dict) and e.get('f') == idx for e in pl['p']):
                                return True
                return False
            if (2 in la and from_up(lb)) or (2 in lb and from_up(la)):
                # result returned directly
                if c['dest'] == 0:
                    return True
        return False

    n = 0
    for g in grp:
        for b, t in g.calls():
            if cname(t) != 'core::iter::traits::collect::Extend::extend':
                continue
            recv_ty = g.local_ty(op_local(t['args'][0]))
            if 'smallvec::SmallVec<[core::net::socket_addr::SocketAddr' not in recv_ty:
                continue
            n += 1
            arg_ty = g.local_ty(op_local(t['args'][1]))
            cls = re.findall(r'\{closure@[^}]*\}', arg_ty)
            good = False
            for c in cls:
                if c in by_ty and 'filter::Filter<' in arg_ty and is_local_node_filter(*by_ty[c]):
                    good = True
            idx = len([o for o in ctx.obs if o.rule == 'C15.N3' and o.key.startswith('extend#')])
            ctx.ob('C15.N3', 'extend#%d' % idx, good, site(g, t['cs']),
                   'collected iterator carries a Filter(item != local_node)' if good else
                   'nodes are collected from an iterator without the `item != local_node` filter: the local node can be returned as its own replica')
            # N5: the candidate list is the whole node list of the data centre (minus the local node)
            # (a Skip applied directly to a Cycle is a rotation: nothing is dropped for good)
            drops = re.findall(r'adapters::(skip::Skip|skip_while::SkipWhile|step_by::StepBy|take_while::TakeWhile)<(?!core::iter::adapters::cycle::Cycle<)', arg_ty)
            n_filters = arg_ty.count('filter::Filter<')
            n_local = len([c for c in cls if c in by_ty and is_local_node_filter(*by_ty[c])])
            good5 = not drops and n_filters <= n_local
            ctx.ob('C15.N5', 'extend#%d|every-node-is-a-candidate' % idx, good5, site(g, t['cs']),
                   'the candidates are the data centre\'s whole node list minus the local node (no skipping adaptor, no other filter)' if good5 else
                   'the candidate iterator %s: live nodes other than the local one are invisible to this selection, so it can '
                   'report NotEnoughNodes (or return fewer than the level requires) although enough live nodes exist — e.g. after earlier '
                   'selections advanced a cursor the list is skipped by' % ('drops elements through ' + ', '.join(sorted(set(d.split('::')[1] for d in drops))) if drops
                                                                           else 'carries a filter other than `item != local_node`'))
    # push sites (loops instead of extend): the pushed address is guarded by `!= local_node`, or comes out of a buffer that is only
    # filled through guarded sites
    for g in grp:
        if g.kind not in ('fn', 'method'):
            continue
        flow = Flow(g)
        calls = list(g.calls())
        pushes = [(b, t) for b, t in calls if cname(t) == 'smallvec::SmallVec::push' and 'core::net::socket_addr::SocketAddr' in g.local_ty(op_local(t['args'][0]))]
        if not pushes:
            continue
        # locals holding the local node's address: the parameter named local_node and everything copied from it
        names = g.local_names()
        ln = {l for l, nm in names.items() if nm == 'local_node'}
        if not ln:
            continue
        ln_fw = flow.forward(list(ln), stop=[0])
        guarded = {}
        for b, t in pushes:
            v = op_local(t['args'][1])
            vb = flow.backward([v]) if v is not None else set()
            ok_g = False
            for c in list(comparisons(g)) + list(all_comparisons(g)):
                if c['lhs'] is None or c['rhs'] is None or c['rel'] not in ('==', '!='):
                    continue
                la, lb = flow.backward([c['lhs']]), flow.backward([c['rhs']])
                one_local = bool(la & ln_fw) != bool(lb & ln_fw)
                other = lb if (la & ln_fw) else la
                if not one_local or not (other & vb or vb & flow.forward(list(other), stop=[0])):
                    continue
                ne_edge = c.get('true_edge') if c['rel'] == '!=' else c.get('false_edge')
                if ne_edge is not None and g.edge_dominates(ne_edge, b):
                    ok_g = True
            if not ok_g and v is not None:
                # the pushed address is drawn (`next`) from an iterator whose type carries the Filter(item != local_node) adaptor
                for nb, nt in calls:
                    if cname(nt) != 'core::iter::traits::iterator::Iterator::next' or nt['dest']['l'] not in vb:
                        continue
                    it_ty = g.local_ty(op_local(nt['args'][0]))
                    cls_ = re.findall(r'\{closure@[^}]*\}', it_ty)
                    if 'filter::Filter<' in it_ty and any(c in by_ty and is_local_node_filter(*by_ty[c]) for c in cls_) \
                            and it_ty.count('filter::Filter<') >= 1 and not re.search(r'adapters::(chain::Chain|flatten::)', it_ty):
                        ok_g = True
            guarded[(b, id(t))] = ok_g
        roots_ok = set()
        for _round in range(3):
            by_root = {}
            for b, t in pushes:
                for r_ in referent_roots(g, op_local(t['args'][0])):
                    by_root.setdefault(r_, []).append((b, t))
            for r_, sites in by_root.items():
                if all(guarded[(b, id(t))] for b, t in sites):
                    roots_ok.add(r_)
            for b, t in pushes:
                if guarded[(b, id(t))]:
                    continue
                v = op_local(t['args'][1])
                cut = flow.backward([v], stop=list(roots_ok)) if v is not None else set()
                raw = [l for l in cut if l not in roots_ok and ('NodeCycler' in g.local_ty(l) or l in range(1, g.argc + 1) and 'BTreeMap' in g.local_ty(l))]
                if (cut & roots_ok) and not raw:
                    guarded[(b, id(t))] = True
        for b, t in pushes:
            if g.name.endswith('select_n_nodes') or (t.get('inl') or '').endswith('select_n_nodes'):
                continue        # the share-based pass: its pushes are value-dependent (DESIGN §5 C15), covered by N4 / N6
            n += 1
            idx = len([o for o in ctx.obs if o.rule == 'C15.N3' and o.key.startswith('push#')])
            good = guarded[(b, id(t))]
            ctx.ob('C15.N3', 'push#%d' % idx, good, site(g, t['cs']),
                   'the pushed address is guarded by `!= local_node` (or comes from a buffer filled only through guarded pushes)' if good else
                   'a node address is pushed into the selection without a `!= local_node` guard: the local node can be returned as its own replica')
    ctx.floor('C15.N3', 'bulk collection sites', n, 4)


def check_N4(ctx, facts):
    b = facts.body(NS + 'select_n_nodes')
    if b is None:
        ctx.bad('C15.N4', 'anchor', '', 'select_n_nodes not found')
        return
    flow = Flow(b)
    oks = ok_return_blocks(b)
    good = False
    for c in comparisons(b):
        if c['rel'] not in ('>=', '<', '>', '<=') or c['lhs'] is None or c['rhs'] is None:
            continue
        la, lb = flow.backward([c['lhs']]), flow.backward([c['rhs']])
        lens = {t['dest']['l'] for _b, t in b.calls() if cname(t) == 'smallvec::SmallVec::len'}
        if lens & la and 3 in lb:
            rel = c['rel']
        elif lens & lb and 3 in la:
            rel = FLIP[c['rel']]
        else:
            continue
        enough_edge = c['true_edge'] if rel in ('>=', '>') else c['false_edge']
        if rel in ('>=', '<') and oks and all(b.edge_dominates(enough_edge, ob) for ob in oks):
            good = True
    ctx.ob('C15.N4', 'ok-only-with-enough', good, site(b),
           'select_n_nodes returns Ok only on the edge selected.len() >= n' if good else 'Ok can be returned with fewer than n nodes')


def check_N6(ctx, facts):
    """select_n_nodes reports a shortage only after an exhaustive walk: on every path to the Err return, every data centre
    of the layout (no data-centre-level filter / sample) was walked with selection still possible.  The first pass
    alone is not exhaustive: a rejected candidate consumes part of a data centre's share and the data centres are
    visited once (finding 13)."""
    b = facts.body(NS + 'select_n_nodes')
    if b is None:
        ctx.bad('C15.N6', 'anchor', '', 'select_n_nodes not found (fail closed)')
        return
    flow = Flow(b)
    errs = err_return_blocks(b)
    if not errs:
        errs = [blk for blk, _j, s in b.assigns() if s['rv']['k'] == 'aggregate' and 'NotEnoughNodes' in str(s['rv'].get('vname', '')) + str(s['rv'].get('adt', ''))]
    calls = list(b.calls())
    MAPWALK = re.compile(r'^alloc::collections::btree::map::BTreeMap::(values|iter|values_mut|iter_mut)$')
    DROP = re.compile(r'(Iterator::(filter|take|skip|step_by|take_while|skip_while|filter_map|nth|last)|IteratorRandom::choose(_multiple|_stable|_multiple_fill|_multiple_weighted)?)$')
    pushes = [pb for pb, t in calls if cname(t) in ('smallvec::SmallVec::push', 'core::iter::traits::collect::Extend::extend', 'alloc::vec::Vec::push')]
    walks = []
    for wb, t in calls:
        n = cname(t)
        if not n or not MAPWALK.match(n):
            continue
        if 5 not in flow.backward([op_local(t['args'][0])]):
            continue
        fw = flow.forward([t['dest']['l']], stop=[0])
        dropped = [cname(t2) for _b2, t2 in calls if cname(t2) and DROP.search(cname(t2)) and t2['args'] and op_local(t2['args'][0]) in fw
                   and ty_head(b.local_ty(op_local(t2['args'][0])).lstrip('&').replace('mut ', '', 1).strip()).startswith('alloc::collections::btree::map::')]
        selects = any(pb in b.reachable_from([wb]) for pb in pushes)
        walks.append((wb, t, dropped, selects))
    good_walks = [w for w in walks if not w[2] and w[3]]
    # the walk may be skipped on the edge `selected.len() >= n` (then the final test takes the Ok branch: the selection
    # is not shrunk anywhere in this function)
    lens = {t['dest']['l'] for _b, t in calls if cname(t) == 'smallvec::SmallVec::len'}
    enough_edges = []
    for c in comparisons(b):
        if c['rel'] not in ('>=', '<', '>', '<=') or c['lhs'] is None or c['rhs'] is None:
            continue
        la, lb_ = flow.backward([c['lhs']]), flow.backward([c['rhs']])
        if lens & la and 3 in lb_:
            rel = c['rel']
        elif lens & lb_ and 3 in la:
            rel = FLIP[c['rel']]
        else:
            continue
        if rel in ('>=', '<'):
            enough_edges.append(c['true_edge'] if rel == '>=' else c['false_edge'])
    shrinks = [cname(t) for _b, t in calls if cname(t) and re.search(r'smallvec::SmallVec::(clear|pop|remove|truncate|drain|retain|swap_remove|dedup\w*)$', cname(t))]
    if shrinks:
        enough_edges = []
    good = False
    for w in good_walks:
        R = b.reachable_from([0], avoid=[w[0]], avoid_edges=enough_edges)
        if errs and not (set(errs) & R):
            good = True
    ctx.ob('C15.N6', 'shortage-only-after-exhaustive-walk', good, site(b, good_walks[0][1]['cs'] if good_walks else None),
           'NotEnoughNodes is reported only after an unfiltered walk over every data centre of the layout during which nodes can still be selected' if good else
           'select_n_nodes can report NotEnoughNodes without having walked every data centre unfiltered (%d walk(s) over the layout, each filtered / sampled '
           'or off the error path): in the share-based pass a rejected candidate (the local node, or one already taken) uses up part of its data '
           'centre\'s share and where that happens depends on the rotating cursors, so e.g. One followed by Two on a three-node data centre fails '
           'although two other live nodes exist' % len(walks))


def check(ctx):
    facts = ctx.facts('prod')
    import carrier_abs
    carrier_abs.check_member_constructor(ctx, facts, 'C15.N7')
    check_N8(ctx, facts)
    check_N9(ctx, facts)
    check_actor(ctx, facts)
    # SEM: select_nodes (with select_n_nodes and NodeCycler) interpreted on a family of concrete layouts, for every cursor position,
    # every level and every random draw (selector_abs); subsumes N3-N6, which are evaluated only when a construct is not modelled
    import selector_abs
    if not selector_abs.check_selector(ctx, facts, 'C15.SEM', ctx.tier):
        check_N3(ctx, facts)
        check_N6(ctx, facts)
        check_N4(ctx, facts)


def _field_origins(facts, body, local, depth=0):
    """the struct fields (adt, field name) of workspace types a local's value is read from, following copies / moves backwards"""
    fl = Flow(body, all_calls=False)
    back = fl.backward([local])
    out = set()
    for _b, _j, s_ in body.assigns():
        if s_['lhs']['l'] not in back or s_['lhs']['p']:
            continue
        for pl in rv_places(s_['rv']):
            parent = body.local_ty(pl['l'])
            last = None
            for e in pl['p']:
                if isinstance(e, dict) and 'f' in e:
                    pa = facts.adts.get(strip_generics(parent.lstrip('&').replace('mut ', '').strip())) if parent else None
                    if pa is not None and pa['kind'] == 'struct' and strip_generics(pa['def']).startswith('datacake') and e['f'] < len(pa['variants'][0]['fields']):
                        last = (strip_generics(pa['def']), pa['variants'][0]['fields'][e['f']]['name'])
                    else:
                        last = None
                    parent = e.get('ty')
            if last is not None and str(parent).endswith('SocketAddr'):
                out.add(last)
    return out


def check_N9(ctx, facts, rule='C15.N9'):
    """N9: the selector is told WHICH ADDRESS IS ITS OWN NODE, and leaves that address out of every selection; the membership layout lists every
    member — the local one included — under the address of its membership record.  Both must be the same configured address: the one given to
    the selector as the local node and the one the local member's record is built with are read from the same field of the connection
    configuration (value routing between two same-typed sibling fields; round 8, C15h: the selector was started with the listen address, so
    with listen != public address a node selects itself and counts itself as a replica)."""
    N = 'datacake_node'
    sel, mem = [], []
    for b in facts.bodies.values():
        if b.crate != N or b.d['promoted']:
            continue
        for _blk, t in b.calls():
            n_ = cname(t) or ''
            if n_.endswith('::start_node_selector') and t.get('args'):
                l = op_local(t['args'][0])
                if l is not None:
                    sel.append((b, t, _field_origins(facts, b, l)))
            if n_.endswith('::ClusterMember::new') and len(t.get('args') or []) >= 2:
                for a in t['args']:
                    l = op_local(a)
                    if l is not None and str(b.local_ty(l)).endswith('SocketAddr'):
                        o_ = _field_origins(facts, b, l)
                        if o_:
                            mem.append((b, t, o_))
    if not sel or not mem:
        ctx.notes.append('%s: the selector start-up or the local member record is not built from a configuration field in a way the rule reads: not decided' % rule)
        return

    def through(origins):
        """a field of an intermediate workspace struct (ClusterInfo) is followed to what it is built from"""
        out = set()
        for adt, fld in origins:
            hit = False
            for b in facts.bodies.values():
                if b.crate != N or b.d['promoted']:
                    continue
                for _b, _j, s_ in b.assigns():
                    rv = s_['rv']
                    if rv['k'] == 'aggregate' and rv.get('agg') == 'adt' and strip_generics(rv['adt']) == adt and fld in (rv.get('fields') or []):
                        o = rv['ops'][rv['fields'].index(fld)]
                        l = op_local(o)
                        if l is not None:
                            src = _field_origins(facts, b, l)
                            if src:
                                out |= src
                                hit = True
            if not hit:
                out.add((adt, fld))
        return out
    s_or = set()
    for _b, _t, o in sel:
        s_or |= through(o)
    m_or = set()
    for _b, _t, o in mem:
        m_or |= through(o)
    if not s_or or not m_or:
        ctx.notes.append('%s: origins not resolved: not decided' % rule)
        return
    good = s_or == m_or
    b0, t0, _o = sel[0]
    ctx.ob(rule, 'self-address|selector-vs-member-record', good, site(b0, t0['cs']),
           'the address the selector leaves out as "this node" and the address of the local member\'s record are both read from %s' % sorted(s_or) if good else
           'the selector is told its own node is at %s, the local member is recorded (and listed in the membership layout the selector receives) under %s: when the two '
           'configured addresses differ the selector does not recognise its own entry — it hands out the local node as a replica, so a level is "met" by fewer distinct '
           'peers than it promises and too-few-nodes is not reported' % (sorted(s_or), sorted(m_or)))


def check_N8(ctx, facts, rule='C15.N8'):
    """N8: selections are owned by the actor.  The actor processes membership updates and requests in one order, so a selection it hands out
    (or keeps) is never older than the last update it has processed.  A copy of a selection kept on the HANDLE side — in a cell shared by the
    handle's clones — is written by requests that were in flight while an update went through: the handle's fields are channel endpoints and
    plain values, none of them a collection of node addresses or a shared cell holding one.  (Round 7, C15g: the 2 s selection cache moved
    into the handle; a request answered from the old layout stores its answer after `set_nodes` cleared the cache.)"""
    hs = [a for n, a in facts.adts.items() if n.startswith('datacake_node::') and n.endswith('::NodeSelectorHandle') and a['kind'] == 'struct']
    if len(hs) != 1:
        return
    h = hs[0]

    def holds_selection(ty, depth=0, seen=()):
        if ty.startswith(('flume::Sender<', 'flume::Receiver<', 'tokio::sync::mpsc::', 'tokio::sync::oneshot::', 'crossbeam_channel::')):
            return None
        if 'SocketAddr' in ty and any(c in ty for c in ('SmallVec<', 'Vec<', 'HashMap<', 'BTreeMap<', 'HashSet<', 'BTreeSet<', 'VecDeque<', '[core::net', '[std::net')):
            return 'holds a collection of node addresses'
        head = ty_head(ty)
        a = facts.adts.get(head)
        if a and depth < 3 and head not in seen and a['def'].startswith('datacake_node'):
            for v in a['variants']:
                for f in v['fields']:
                    r = holds_selection(f['ty'], depth + 1, seen + (head,))
                    if r:
                        return '%s.%s %s' % (last_seg(head), f['name'], r)
        return None
    for f in h['variants'][0]['fields']:
        r = holds_selection(f['ty'])
        ctx.ob(rule, 'handle.field|' + f['name'], r is None, '%s:%s' % (h['span']['f'], h['span']['l']),
               'field %s of the selector handle holds no selection' % f['name'] if r is None else
               'field %s: %s %s — a selection kept outside the actor is written by requests that were in flight while a membership update went through: '
               'nodes that left keep being selected after `set_nodes` returned' % (f['name'], f['ty'][:120], r))
