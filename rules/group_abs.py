"""C18.SEM: first use of a keyspace with one competitor at every suspension point (P-TRACE).

`KeyspaceGroup::get_or_create_keyspace` is interpreted for a name the group does not hold yet.  The group's two tables are
what their own `Default` builds (locks and `Arc`s transparent), spawning the keyspace actor and reading the clock are modelled
effects that hand out a fresh actor / a fresh change-stamp cell per call.  At each suspension point of the creation path in turn
— and before the call starts — a COMPETITOR runs the same function for the same name to completion on the same group (the real
code, interpreted), after which the first call continues.  Decided for every placement of the competitor: both calls return the
SAME mailbox, a later lookup returns that mailbox too, and the change-stamp cell registered for the name is the one created with
that mailbox (not the loser's).  This is the statement's "one state per keyspace even under concurrent first use" for two tasks
and every interleaving of one of them at await granularity; table representation and locking idiom do not matter.  The
structural clauses A1–A4 are the fallback."""
import re
import absint
from absint import Interp, Order, Cell, Unmodelled, UNIT, mk_option
from facts import strip_generics, last_seg, ty_head
import actor_abs
from actor_abs import World, ok, err, upvar_types
import registry_abs

EC = 'datacake_eventual_consistency'


class GroupWorld(World):
    def __init__(self, facts, shared, inject_at, entry, make_args, competitor=False):
        World.__init__(self, hooks=[self.hook])
        self.facts = facts
        self.shared = shared          # {'n': activation counter, 'points': [...], 'results': {...}}
        self.inject_at = inject_at
        self.entry = entry
        self.make_args = make_args
        self.competitor = competitor
        self.act = None
        self.point = 0
        self.held = 0
        self.guards = set()

    def on_drop(self, interp, body, local):
        ty = body.local_ty(local)
        if 'Guard<' in ty and (body.defp, local) in self.guards:
            self.guards.discard((body.defp, local))
            self.held = max(0, self.held - 1)

    def suspend(self, interp, label):
        """a suspension point of the call under observation: the competitor may run here"""
        if self.competitor:
            return
        self.point += 1
        self.shared['points'].add((self.point, label))
        if self.inject_at == self.point and 'competitor' not in self.shared['results']:
            self.shared['results']['competitor'] = run_call(self.facts, self.shared, None, self.entry, self.make_args, competitor=True)

    def hook(self, world, interp, name, args, t, body):
        seg = last_seg(name)
        if name.endswith('::clock::Clock::get_time'):
            self.suspend(interp, 'clock read')
            self.shared['n'] += 1
            self.act = self.shared['n']
            return ('future', 'ready', ('ts', 'now%d' % self.act))
        if name.endswith('::spawn_keyspace') or name.endswith('::KeyspaceActor::spawn_actor') or re.search(r'::spawn_actor(_with\w*)?$', name):
            self.suspend(interp, 'actor spawn')
            if self.act is None:
                self.shared['n'] += 1
                self.act = self.shared['n']
            return ('future', 'ready', ('opaque', 'mailbox:%d' % self.act))
        if 'AtomicCell' in name and seg == 'new':
            if self.act is None:
                self.shared['n'] += 1
                self.act = self.shared['n']
            return ('opaque', 'cell:%d' % self.act)
        if name.startswith(registry_abs.LOCKS) or name.startswith('parking_lot'):
            if seg in ('lock', 'write', 'read', 'upgradable_read') and args and not t['dest']['p']:
                # between two critical sections another task can run (a parallel runtime needs no await for that): a suspension point
                # unless this task already holds a guard (then the competitor would block)
                if not self.competitor and self.held == 0:
                    self.suspend(interp, 'before a lock is taken')
                self.held += 1
                self.guards.add((body.defp, t['dest']['l']))
            if seg in ('lock', 'write', 'read', 'upgradable_read', 'try_lock', 'try_write', 'try_read', 'get_mut', 'deref', 'deref_mut', 'upgrade', 'downgrade', 'try_upgrade',
                       'upgradable_read_arc', 'clone') and args:
                if seg in ('upgrade', 'downgrade') and 'RwLockUpgradableReadGuard' in name:
                    return args[-1]
                return args[0]
            if seg in ('new', 'from', 'const_new') and args:
                return args[-1]
        if name == 'core::clone::Clone::clone' and args:
            a = interp.deref_all(args[0])
            if a is not None and a[0] in ('opaque', 'map', 'vec', 'set') or (a is not None and a[0] == 'adt' and a[1].startswith(EC)):
                return a           # handles are shared, not copied
        if not args and not t['dest']['p'] and ty_head(body.local_ty(t['dest']['l'])).endswith('::OrSWotSet'):
            return ('opaque', 'fresh-set')
        if name == 'core::default::Default::default' and not args and not t['dest']['p']:
            v = registry_abs.default_wrapped(interp, body.local_ty(t['dest']['l']))
            if v is not None:
                return v
        if name == 'core::mem::drop':
            return UNIT
        return None


def run_call(facts, shared, inject_at, entry, make_args, competitor=False):
    world = GroupWorld(facts, shared, inject_at, entry, make_args, competitor)
    it = Interp(facts, Order({}), opaque_call=world.call, step_limit=400000)
    it.poll_hook = world.poll
    it.unknown_call = actor_abs.lenient_unknown
    it.opaque_fields = True
    it.drop_hook = world.on_drop
    if not competitor and inject_at == 0:
        shared['results']['competitor'] = run_call(facts, shared, None, entry, make_args, competitor=True)
    st = make_args(it)
    r = it.deref_all(it.run_body(entry, [st, ('opaque', 'cx')]))
    return r


def deep_tags(interp, v, prefix, out, depth=0, seen=None):
    seen = seen if seen is not None else set()
    v = interp.deref_all(v)
    if v is None or depth > 12:
        return
    if v[0] == 'opaque' and str(v[1]).startswith(prefix):
        out.append(v[1])
    cells = v[3] if v[0] == 'adt' else v[1] if v[0] in ('tuple', 'arr') else v[2] if v[0] == 'closure' else []
    if v[0] == 'map':
        cells = list(v[1].items.values())
    if v[0] == 'vec':
        cells = [c if isinstance(c, Cell) else Cell(c) for c in v[1]]
    for c in cells:
        if id(c) in seen:
            continue
        seen.add(id(c))
        deep_tags(interp, c.v, prefix, out, depth + 1, seen)


def check_group(ctx, facts, rule):
    from orswot_abs import _fallback
    try:
        ents = [b for b in facts.bodies.values() if b.crate == EC and b.kind == 'coroutine' and b.name.endswith('::KeyspaceGroup::get_or_create_keyspace::{closure#0}') and b.cfg is not None]
        grp = [n for n in facts.adts if n.startswith(EC + '::') and n.endswith('::KeyspaceGroup')]
        if len(ents) != 1 or len(grp) != 1:
            raise Unmodelled('KeyspaceGroup::get_or_create_keyspace not found')
        entry = ents[0]
        ups = upvar_types(entry)
        ga = facts.adts[grp[0]]
        outcomes = {}
        n_points = None
        inject = -1          # a dry run without competitor counts the suspension points of the creation path
        while True:
            shared = {'n': 0, 'points': set(), 'results': {}}
            probe = Interp(facts, Order({}))
            cells = []
            for f in ga['variants'][0]['fields']:
                # a table: a lock over a collection, directly or inside a private wrapper type of the crate (`Registry<V>`)
                fa_ = facts.adts.get(ty_head(f['ty'][f['ty'].index('<') + 1:-1] if ty_head(f['ty']) in ('alloc::sync::Arc', 'alloc::boxed::Box') and '<' in f['ty'] else f['ty']))
                wrapper_ = fa_ is not None and fa_['def'].startswith(EC) and fa_['kind'] == 'struct' and any(('RwLock' in x['ty'] or 'Mutex' in x['ty']) for x in fa_['variants'][0]['fields'])
                v = registry_abs.default_wrapped(probe, f['ty']) if ('RwLock' in f['ty'] or 'Mutex' in f['ty'] or wrapper_) else None
                cells.append(Cell(v if v is not None else ('opaque', 'group-field:' + f['name'])))
            if not any(c.v[0] != 'opaque' for c in cells):
                raise Unmodelled('the tables of KeyspaceGroup cannot be constructed')
            group = ('adt', grp[0], 0, cells)

            def make_args(it, group=group):
                upv = {}
                for i, ty in ups.items():
                    if 'KeyspaceGroup' in ty:
                        upv[i] = ('ref', Cell(group)) if ty.startswith('&') else group
                    elif ty in ('&str', 'alloc::string::String', '&alloc::string::String'):
                        upv[i] = ('ref', Cell(('key', 'ks'))) if ty.startswith('&') else ('key', 'ks')
                    else:
                        upv[i] = ('opaque', 'arg:' + ty)
                n = max(upv) + 1
                return ('closure', entry.defp, [Cell(upv.get(i, ('opaque', 'u'))) for i in range(n)])
            main = run_call(facts, shared, inject, entry, make_args)
            comp = shared['results'].get('competitor')
            later = run_call(facts, shared, None, entry, make_args, competitor=True)
            it0 = Interp(facts, Order({}))
            cellsreg = []
            for c in cells:
                deep_tags(it0, c.v, 'cell:', cellsreg)
            if inject >= 0:
                outcomes[inject] = (main, comp, later, sorted(set(cellsreg)), sorted(shared['points']))
            else:
                n_points = len(shared['points'])
                all_points = sorted(shared['points'])
                if not n_points:
                    raise Unmodelled('the creation path has no suspension point that could be observed')
            inject += 1
            if inject > n_points:
                break
    except (Unmodelled, absint.NeedChoice, absint.PanicPath, IndexError, TypeError, KeyError, AttributeError, RecursionError) as e:
        return _fallback(ctx, rule, e)
    site_ = '%s:%s' % (entry.file, entry.line)
    labels = {0: 'the competitor completes before the call starts'}
    for inj, out in outcomes.items():
        pts = dict(all_points)
        if inj:
            labels[inj] = 'the competitor runs at suspension point %d (%s)' % (inj, pts.get(inj, '?'))

    def tag(v):
        return v[1] if v is not None and v[0] == 'opaque' else str(v)
    for inj, (main, comp, later, cellsreg, _pts) in sorted(outcomes.items()):
        m, c, l = tag(main), tag(comp) if comp is not None else None, tag(later)
        bad = None
        if comp is None:
            bad = 'the competitor was never run (suspension point not reached)'
        elif not str(m).startswith('mailbox:') or not str(l).startswith('mailbox:'):
            bad = 'the call returns %s and a later lookup %s' % (m, l)
        elif not (m == c == l):
            bad = 'the first call returns actor %s, the competitor %s and a later lookup %s: two tasks hold different states for one keyspace (writes through the loser\'s are invisible to the rest)' % (m, c, l)
        elif cellsreg != ['cell:' + m.split(':')[1]]:
            bad = 'the registered actor is %s but the change-stamp cell registered for the keyspace is %s: the keyspace\'s changes are no longer advertised to peers' % (m, cellsreg)
        ctx.ob(rule, 'first-use|%s' % labels[inj], bad is None, site_,
               '%s: both calls and a later lookup hold the same keyspace state, registered with its own change-stamp cell' % labels[inj] if bad is None else '%s: %s' % (labels[inj], bad))
    return True
