"""C15.SEM: the replica selector interpreted on concrete small layouts (P-ORDER interpreter, integers concrete).

`<DCAwareSelector as NodeSelector>::select_nodes` — the real MIR, `select_n_nodes` and `NodeCycler` included — is interpreted
for every consistency level on a family of data-centre layouts, for every position of every rotating cursor (= whatever
selections were made before) and, where the code draws data centres at random, for every draw.  Node addresses are opaque
names; only equality is used on them.  Decided per (layout, cursors, level, draw):
  Ok(sel)  =>  sel has no duplicates, contains only members of the layout other than the local node, and at least as many as
               the level requires (exactly n for One / Two / Three);
  Err(_)   =>  fewer than the required number of other live nodes exist.
The quick tier runs 21 layouts (about 500 layout x cursor configurations), the thorough tier adds the larger ones up to 4 data centres of 4 nodes.  The structural clauses N3–N6 are the fallback when a
construct is outside the interpreter's vocabulary."""
import itertools
import absint
from absint import Interp, Order, Cell, MapObj, Unmodelled, UNIT, mk_option, mk_bool
from facts import strip_generics, last_seg, ty_head
import actor_abs

NS = 'datacake_node::nodes_selector::'
LEVELS = ['None', 'One', 'Two', 'Three', 'Quorum', 'LocalQuorum', 'All', 'EachQuorum']

# layouts: sizes per data centre; the local node is the first / last node of the first / last data centre
QUICK = [[1], [2], [3], [1, 1], [2, 1], [1, 2], [2, 2], [1, 1, 1], [3, 2, 1], [1, 1, 1, 1]]
FULL = QUICK + [[4], [1, 3], [3, 1], [3, 3], [2, 1, 1], [1, 2, 2], [2, 2, 2], [4, 4], [2, 1, 1, 1], [1, 2, 1, 3], [4, 1, 1, 1]]


THOROUGH = FULL + [[3, 3, 3], [4, 4, 4], [2, 2, 2, 2], [4, 3, 2, 1], [1, 4, 4, 1], [4, 4, 4, 4]]


def required(level, sizes, local_dc=0):
    total = sum(sizes)
    live = total - 1
    if level == 'None':
        return 0, None
    if level in ('One', 'Two', 'Three'):
        n = {'One': 1, 'Two': 2, 'Three': 3}[level]
        return n, n
    if level == 'Quorum':
        return total // 2, None
    if level == 'LocalQuorum':
        return sizes[local_dc] // 2, None
    if level == 'All':
        return live, live
    if level == 'EachQuorum':
        return sum((s // 2) if i == local_dc else (s // 2 + 1) for i, s in enumerate(sizes)), None
    raise KeyError(level)


class SelWorld(actor_abs.World):
    def __init__(self):
        actor_abs.World.__init__(self, hooks=[self.hook])

    def hook(self, world, interp, name, args, t, body):
        seg = last_seg(name)
        if name.endswith('IteratorRandom::choose_multiple') and len(args) == 3:
            xs = interp.drain(interp.as_iter(args[0]), 0)
            nv = interp.deref_all(args[2])
            n = nv[1]
            out = []
            for i, x in enumerate(xs):
                left = len(xs) - i
                need = n - len(out)
                if need <= 0:
                    break
                if left <= need or interp.choose('random-draw'):
                    out.append(x)
            return ('vec', out)
        if name.endswith('IteratorRandom::choose') and len(args) == 2:
            xs = interp.drain(interp.as_iter(args[0]), 0)
            for i, x in enumerate(xs):
                if i == len(xs) - 1 or interp.choose('random-draw'):
                    return mk_option(x)
            return mk_option(None)
        if name.startswith('rand::') and seg in ('thread_rng', 'rng'):
            return ('opaque', 'rng')
        if name.endswith('SliceRandom::shuffle'):
            raise Unmodelled('shuffle')
        return None


def make_layout(facts, sizes, cursors, ld=0, lp=0):
    cyc = facts.adts.get(NS + 'NodeCycler')
    if cyc is None:
        raise Unmodelled('NodeCycler not found')
    items = {}
    names = []
    for d, (sz, cur) in enumerate(zip(sizes, cursors)):
        nodes = []
        for i in range(sz):
            nm = 'L' if (d == ld and i == lp) else 'n%d%d' % (d, i)
            nodes.append(('key', nm))
            names.append(nm)
        cells = []
        for f in cyc['variants'][0]['fields']:
            if f['ty'] == 'usize':
                cells.append(Cell(('int', cur)))
            elif 'SmallVec' in f['ty'] or 'Vec<' in f['ty']:
                cells.append(Cell(('vec', list(nodes))))
            else:
                raise Unmodelled('NodeCycler field %s' % f['name'])
        items['dc%d' % d] = Cell(('adt', NS + 'NodeCycler', 0, cells))
    return ('map', MapObj('btree', items)), names


def run_family(facts, family):
    sel = [b for b in facts.bodies.values() if b.crate == 'datacake_node' and b.kind == 'method' and b.name.endswith('::select_nodes') and b.impl and 'NodeSelector' in b.impl
           and b.argc == 6]
    if len(sel) != 1:
        raise Unmodelled('select_nodes implementation not found (%d)' % len(sel))
    body = sel[0]
    cons = facts.adts.get(NS + 'Consistency')
    if cons is None:
        raise Unmodelled('Consistency not found')
    vidx = {v['name']: i for i, v in enumerate(cons['variants'])}
    if set(vidx) != set(LEVELS):
        raise Unmodelled('consistency levels %s differ from the specified ones' % sorted(vidx))
    bad = {}
    n_runs = 0
    n_cfg = 0
    for sizes in family:
        total = sum(sizes)
        places = sorted({(ld, lp) for ld in (0, len(sizes) - 1) for lp in (0, sizes[ld] - 1)})
        for (ld, lp), cursors in itertools.product(places, itertools.product(*[range(s + 1) for s in sizes])):
            n_cfg += 1
            for level in LEVELS:
                need, exact = required(level, sizes, ld)

                def run(choices, sizes=sizes, cursors=cursors, level=level, ld=ld, lp=lp):
                    world = SelWorld()
                    layout, names = make_layout(facts, sizes, cursors, ld, lp)
                    it = Interp(facts, Order({}), opaque_call=world.call, step_limit=200000)
                    it.unknown_call = actor_abs.lenient_unknown
                    it.opaque_fields = True
                    it.choices = list(choices)
                    selfv = ('adt', strip_generics(body.impl.split(' as ')[0].lstrip('<')), 0, [])
                    args = [('ref', Cell(selfv)), ('key', 'L'), ('ref', Cell(('key', 'dc%d' % ld))), ('int', total), ('ref', Cell(layout)), ('adt', NS + 'Consistency', vidx[level], [])]
                    r = it.deref_all(it.run_body(body, args))
                    return it.oracle_log, (r, names)
                for log, res in absint.explore(run):
                    n_runs += 1
                    tag = None
                    if res and res[0] == 'panic':
                        tag = ('panics', 'the selection panics (%s)' % res[1])
                    else:
                        r, names = res
                        live = [n for n in names if n != 'L']
                        if r is None or r[0] != 'adt' or r[1] != 'core::result::Result':
                            raise Unmodelled('select_nodes does not return a Result')
                        if r[2] == 0:
                            v = r[3][0].v
                            v = v if v[0] == 'vec' else None
                            if v is None:
                                raise Unmodelled('the selection is not a vector')
                            got = []
                            for x in v[1]:
                                x = x.v if isinstance(x, Cell) else x
                                while x is not None and x[0] == 'ref':
                                    x = x[1].v
                                got.append(x[1] if x and x[0] == 'key' else str(x))
                            if 'L' in got:
                                tag = ('local-node-selected', 'the local node is returned as its own replica: %s' % got)
                            elif len(set(got)) != len(got):
                                tag = ('duplicates', 'a node is returned twice: %s' % got)
                            elif any(g not in live for g in got):
                                tag = ('not-a-member', 'something that is not a live member is returned: %s' % got)
                            elif len(got) < need:
                                tag = ('too-few', '%d node(s) %s are returned although the level requires %d and %d other live node(s) exist' % (len(got), got, need, len(live)))
                            elif exact is not None and len(got) != exact:
                                tag = ('not-exactly-n', '%d node(s) are returned, the level asks for exactly %d' % (len(got), exact))
                        else:
                            if len(live) >= need:
                                tag = ('shortage-reported-wrongly', 'NotEnoughNodes is reported although %d other live node(s) exist and the level requires %d' % (len(live), need))
                    if tag:
                        bad.setdefault(tag[0], (level, sizes, cursors, tag[1], (ld, lp)))
    return body, bad, n_cfg, n_runs


def check_selector(ctx, facts, rule, tier='quick'):
    from orswot_abs import _fallback
    try:
        body, bad, n_cfg, n_runs = run_family(facts, THOROUGH if tier == 'thorough' else FULL)
    except (Unmodelled, absint.NeedChoice, IndexError, TypeError, KeyError, AttributeError, RecursionError) as e:
        return _fallback(ctx, rule, e)
    site_ = '%s:%s' % (body.file, body.line)
    CLAUSES = [('local-node-selected', 'the local node is never selected'), ('duplicates', 'no node is selected twice'), ('not-a-member', 'only members of the layout are selected'),
               ('too-few', 'a successful selection has at least as many nodes as the level requires'), ('not-exactly-n', 'One / Two / Three (and All) return exactly the number asked for'),
               ('shortage-reported-wrongly', 'NotEnoughNodes is reported only when fewer other live nodes exist than the level requires'), ('panics', 'no selection panics')]
    for key, text in CLAUSES:
        b = bad.get(key)
        ctx.ob(rule, 'selection|' + key, b is None, site_,
               '%s — on %d layout x cursor configurations, all 8 levels, every random draw (%d interpretations)' % (text, n_cfg, n_runs) if b is None else
               'level %s on the layout %s (local node = node %d of data centre %d) with the cursors at %s: %s' % (b[0], b[1], b[4][1], b[4][0], list(b[2]), b[3]))
    return True
