"""C06 — a successful write reached the replicas its level promises.  DESIGN §5 C06."""
from analysis import *  # noqa
from facts import strip_generics, op_local, op_const, const_int, last_seg, ty_head
from engine import site
import c02

CONFIGS = ['prod']
EXPLANATION = (
    'W9: the selector handle keeps no selection of its own (C15.N8 re-evaluated). '
    'W8: the membership record is a plain carrier — ClusterMember::new stores id, address and data centre exactly as given (the selector filters the local node by comparing addresses, the consumers key their peers by id). '
    'SEM, API level (abstract interpretation of the MIR, no code runs): each of put / put_many / del / del_many of the replicated store is interpreted end to end with node '
    'selection, the node clock, the local keyspace actor, the distributor queue and the RPC wire as modelled effects, for seven scenarios (selection refused; no replica selected; '
    'local write fails; the two selected replicas answer ok/ok, err/ok, ok/err, err/err): nothing is written or sent when selection is refused, nothing is queued or sent when the '
    'local write fails, otherwise the local actor gets exactly the operation under the live-path source, the same operation is queued once as the matching mutation, every '
    'selected replica is sent it exactly once with the stamp of the local write, the replicas are selected for the caller\'s own level, and Ok is returned exactly when every '
    'selected replica acknowledged. Subsumes W1, W2, W3 and W5, which are evaluated only when a construct is outside the interpreter\'s vocabulary. '
    'SEM, counting function: the acknowledgement counting interpreted for two selected nodes and all 16 combinations of replica outcomes (one request per node, Ok exactly whe'
    'n all acknowledged). '
    'Decided clauses: W1 in each of the four client API functions the replica distribution (whose result is the function\'s result) is '
    'dominated by the success edge of the local keyspace write; W2 the replica set handed to the distribution is the selector\'s answer '
    'for the caller\'s own consistency argument (not a constant level); W3 the distribution returns Ok only on the edge '
    'acknowledged == / >= required, where required is the length of the selected set taken before it is consumed, the acknowledged '
    'counter is only incremented on the Ok-variant edge of a completed request, and one request is created per selected node; '
    'W4 every ConsistencyService handler acknowledges (returns Ok) only after its keyspace send succeeded — the result is inspected, no '
    'Ok return is reachable from the failure edge, single-message handlers return Ok only on the success edge; W5 the consistency client '
    'returns Ok only on the success edge of the RPC send. W6 (failure keeps the local write and later replication) is C01.S2. '
    'NOT decided: how many nodes a level requires (quorum arithmetic, C15); liveness of the selected nodes.')
ASSUMPTIONS = ['the selector returns only live nodes other than the local one (C15)', 'an RPC Ok means the remote handler returned Ok (C12/C13)']

EC = 'datacake_eventual_consistency::'
API = ['put', 'put_many', 'del', 'del_many']
HCD = EC + 'handle_consistency_distribution'
SEND = 'puppet::ActorMailbox::send'


def api_bodies(facts):
    out = {}
    for m in API:
        b = facts.bodies.get(None)
        for cand in facts.bodies.values():
            if cand.kind == 'coroutine' and cand.name == EC + 'ReplicatedStoreHandle::%s::{closure#0}' % m:
                out[m] = cand
    return out


def upvar_locals(body, name):
    """locals assigned from the captured variable `name` (coroutine upvars are fields of _1)"""
    up = body.upvar_names()
    idx = [k for k, v in up.items() if v == name]
    out = set()
    if not idx:
        return out
    for _b, _j, s in body.assigns():
        for pl in rv_places(s['rv']):
            if pl['l'] == 1 and pl['p'] and isinstance(pl['p'][0], dict) and pl['p'][0].get('f') == idx[0]:
                out.add(s['lhs']['l'])
    return out


def check_api(ctx, facts):
    bodies = api_bodies(facts)
    ctx.floor('C06.W1', 'client API functions', len(bodies), 4)
    for m, body in sorted(bodies.items()):
        flow = Flow(body)
        calls = list(body.calls())
        sends = [(b, t) for b, t in calls if cname(t) == SEND]
        hcd = [(b, t) for b, t in calls if cname(t) == HCD]
        if len(sends) != 1 or len(hcd) != 1:
            ctx.bad('C06.W1', m, site(body), '%s: expected one local keyspace send and one distribution call, found %d / %d (unrecognised shape, fail closed)' % (m, len(sends), len(hcd)))
            continue
        re_ = ResultEdges(body, flow, sends[0][0])
        good = re_.inspected and re_.ok_dominates(hcd[0][0]) and hcd[0][0] not in re_.reachable_from_err()
        ctx.ob('C06.W1', m, good, site(body, hcd[0][1]['cs']),
               'replica distribution runs only after the local write succeeded' if good else
               'the replicas are contacted (and Ok can be returned) without a successful local write')
        # the function's result is the distribution's result
        aw = awaited_output_local(body, flow, hcd[0][0])
        ret_ok = aw is not None and aw in flow.backward([0])
        oks = ok_return_blocks(body)
        ctx.ob('C06.W1', m + '|result-is-distribution-result', ret_ok and not [b for b in oks if body.dominates(sends[0][0], b)], site(body),
               'the call returns what the distribution returned' if ret_ok else 'the call does not return the distribution\'s verdict')
        # ---- W2 ----
        sel = [(b, t) for b, t in calls if cname(t) == 'datacake_node::DatacakeHandle::select_nodes']
        good = False
        why = 'select_nodes call not found'
        if len(sel) == 1:
            cons = upvar_locals(body, 'consistency')
            ab = flow.backward([op_local(sel[0][1]['args'][1])])
            consts = [s for _b, _j, s in body.assigns() if s['lhs']['l'] in ab and s['rv']['k'] == 'aggregate' and s['rv'].get('agg') == 'adt'
                      and 'Consistency' in s['rv']['adt']]
            consts += [s for _b, _j, s in body.assigns() if s['lhs']['l'] in ab and s['rv']['k'] == 'use' and op_const(s['rv']['op']) is not None
                       and 'Consistency' in op_const(s['rv']['op'])['ty']]
            nodes_arg = flow.backward([op_local(hcd[0][1]['args'][0])])
            aw_sel = awaited_output_local(body, flow, sel[0][0])
            good = bool(cons & ab) and not consts and (sel[0][1]['dest']['l'] in nodes_arg)
            why = 'level passed to the selector is %s; distribution nodes %s the selector\'s answer' % (
                'the caller\'s argument' if cons & ab and not consts else 'NOT the caller\'s argument (a constant or other value)',
                'are' if sel[0][1]['dest']['l'] in nodes_arg else 'are NOT')
        ctx.ob('C06.W2', m, good, site(body, sel[0][1]['cs'] if sel else None), why)


def check_W3(ctx, facts):
    # SEM: the acknowledgement counting interpreted for two selected nodes and every combination of replica outcomes (write_abs);
    # subsumes the structural W3 clauses, which are the fallback
    import write_abs
    if write_abs.check_counting(ctx, facts, 'C06.SEM'):
        return
    b = None
    for cand in facts.bodies.values():
        if cand.kind == 'coroutine' and cand.name == HCD + '::{closure#0}':
            b = cand
    if b is None:
        ctx.bad('C06.W3', 'anchor', '', 'handle_consistency_distribution not found (fail closed)')
        return
    flow = Flow(b)
    calls = list(b.calls())
    nodes = upvar_locals(b, 'nodes')
    lens = [(bb, t) for bb, t in calls if cname(t) == 'smallvec::SmallVec::len' and nodes & set(referent_roots(b, op_local(t['args'][0])) | flow.backward([op_local(t['args'][0])]))]
    consume = [(bb, t) for bb, t in calls if cname(t) == 'core::iter::traits::collect::IntoIterator::into_iter' and nodes & flow.backward([op_local(t['args'][0])])]
    good_len = len(lens) == 1 and len(consume) == 1 and b.dominates(lens[0][0], consume[0][0])
    ctx.ob('C06.W3', 'required-is-selected-count', good_len, site(b, lens[0][1]['cs'] if lens else None),
           'required = len(selected nodes), taken before the set is consumed' if good_len else 'the required count is not the length of the selected node set')
    if not lens:
        return
    req = flow.forward([lens[0][1]['dest']['l']], stop=[0])
    # one request per node: only `map` between into_iter and collect
    adaptors = []
    for bb, t in calls:
        n = cname(t)
        if n and n.startswith('core::iter::traits::iterator::Iterator::') and consume and consume[0][1]['dest']['l'] in flow.backward([op_local(t['args'][0])]):
            adaptors.append(last_seg(n))
    bad_ad = [a for a in adaptors if a not in ('map', 'collect', 'next')]
    ctx.ob('C06.W3', 'one-request-per-node', not bad_ad and 'map' in adaptors, site(b, consume[0][1]['cs'] if consume else None),
           'one request future per selected node (adaptors: %s)' % adaptors if not bad_ad and 'map' in adaptors else 'nodes are dropped before a request is made (adaptors: %s)' % adaptors)
    # counter: incremented only on the Ok edge of a completed request
    incs = []
    for bb, j, s in b.assigns():
        rv = s['rv']
        if rv['k'] == 'bin' and rv['op'].startswith('Add') and const_int(rv['b']) == 1:
            incs.append((bb, s))
    counter_locals = set()
    for bb, s in incs:
        counter_locals |= flow.forward([s['lhs']['l']], stop=[0]) | flow.backward([op_local(s['rv']['a'])])
    guard_ok = False
    for c in comparisons(b):
        if c['lhs'] is None or c['rhs'] is None:
            continue
        l_req, r_req = c['lhs'] in req, c['rhs'] in req
        l_cnt, r_cnt = c['lhs'] in counter_locals, c['rhs'] in counter_locals
        if not ((l_req and r_cnt) or (r_req and l_cnt)):
            continue
        rel = c['rel'] if l_cnt else FLIP[c['rel']]     # counter REL required
        oks = ok_return_blocks(b)
        if rel in ('==', '>='):
            edge = c['true_edge']
        elif rel in ('!=', '<'):
            edge = c['false_edge']
        else:
            continue
        if oks and all(b.edge_dominates(edge, ob) for ob in oks):
            guard_ok = True
    ctx.ob('C06.W3', 'ok-only-when-all-acknowledged', guard_ok, site(b),
           'Ok is returned only on the edge acknowledged == / >= required' if guard_ok else
           'Ok can be returned although fewer replicas acknowledged than the level requires')
    inc_ok = bool(incs)
    for bb, s in incs:
        # dominated by the Ok-variant edge of a switch on a Result discriminant
        dom = False
        for i, blk in enumerate(b.blocks):
            t = blk['t']
            if t['k'] != 'switch' or blk['cleanup']:
                continue
            dl = op_local(t['discr'])
            for _b, _j, s2 in b.assigns():
                if s2['lhs']['l'] == dl and s2['rv']['k'] == 'discr' and ty_head(b.local_ty(s2['rv']['pl']['l'])) == 'core::result::Result':
                    cs = classify_switch(b, i, t, RESULT_HEADS['core::result::Result'])
                    if any(b.edge_dominates(e, bb) for e in cs['ok']) and not any(b.edge_dominates(e, bb) for e in cs['err']):
                        dom = True
        inc_ok = inc_ok and dom
    ctx.ob('C06.W3', 'counter-counts-acknowledgements', inc_ok, site(b, incs[0][1]['cs'] if incs else None),
           'the acknowledged counter is incremented only on the Ok edge of a completed request' if inc_ok else
           'the acknowledged counter is also incremented for failed requests (or never)')


def check_W4(ctx, facts):
    hs = [b for b in facts.bodies.values() if b.kind == 'coroutine' and not b.d['promoted'] and b.impl and 'ConsistencyService' in b.impl
          and 'datacake_rpc::handler::Handler' in b.impl and b.name.endswith('on_message::{closure#0}')]
    ctx.floor('C06.W4', 'ConsistencyService handlers', len(hs), 5)
    for h in sorted(hs, key=lambda b: b.impl):
        msg = re.search(r'Handler<([^>]*)>', h.impl).group(1).rsplit('::', 1)[-1]
        flow = Flow(h)
        calls = list(h.calls())
        sends = [(b, t) for b, t in calls if cname(t) == SEND]
        if not sends:
            ctx.bad('C06.W4', msg + '|send', site(h), 'handler acknowledges without sending anything to the keyspace actor')
            continue
        oks = ok_return_blocks(h)
        for i, (b, t) in enumerate(sends):
            re_ = ResultEdges(h, flow, b)
            key = '%s|send#%d' % (msg, i)
            if not re_.inspected:
                ctx.bad('C06.W4', key, site(h, t['cs']), 'the result of the keyspace send is dropped: the replica acknowledges a write it may not have applied')
                continue
            err_reach = re_.reachable_from_err()
            ok_after_err = [ob for ob in oks if ob in err_reach]
            in_loop = any(b in h.reachable_from([s]) for s in h.succ(b))
            if in_loop:
                # batch handler: every iteration passes through the send; Ok after the loop
                good = not ok_after_err
            else:
                good = not ok_after_err and all(re_.ok_dominates(ob) for ob in oks)
            ctx.ob('C06.W4', key, good, site(h, t['cs']),
                   'Ok is returned only after this send succeeded; its failure leads to an error reply' if good else
                   'an Ok reply is reachable although this keyspace send failed / without passing its success edge')
        # batch: loops iterate the payload's own lists and every iteration sends
        loops = [(b, t) for b, t in calls if cname(t) == 'core::iter::traits::iterator::Iterator::next']
        for lb, lt in loops:
            re_ = ResultEdges(h, flow, lb, include_option=True)
            starts = [e[1] for e in re_.ok]
            send_blocks = [b for b, t in sends if b in h.reachable_from(starts)]
            if not starts or not send_blocks:
                continue
            R = h.reachable_from(starts, avoid=send_blocks)
            skipped = lb in R
            errs = set(err_return_blocks(h))
            ctx.ob('C06.W4', '%s|loop@%s|every-item-sent' % (msg, len([o for o in ctx.obs if o.rule == 'C06.W4' and '|loop@' in o.key and o.key.startswith(msg)])),
                   not skipped, site(h, lt['cs']),
                   'every item of the batch is sent to its keyspace (an iteration can only leave through the send or an error return)' if not skipped else
                   'an item of the batch can be skipped without being applied while the batch is still acknowledged')


def check_W5(ctx, facts):
    cs = [b for b in facts.bodies.values() if b.kind == 'coroutine' and not b.d['promoted']
          and re.match(re.escape(EC) + r'rpc::client::ConsistencyClient::(put|multi_put|del|multi_del|apply_batch)::\{closure#0\}$', b.name)]
    ctx.floor('C06.W5', 'ConsistencyClient methods', len(cs), 5)
    for b in sorted(cs, key=lambda x: x.name):
        m = b.name.split('::')[-2]
        flow = Flow(b)
        calls = list(b.calls())
        sends = [(bb, t) for bb, t in calls if cname(t) in ('datacake_rpc::client::RpcClient::send', 'datacake_rpc::client::RpcContext::send', 'datacake_rpc::client::RpcClient::send_owned')]
        oks = ok_return_blocks(b)
        good = len(sends) == 1
        if good:
            re_ = ResultEdges(b, flow, sends[0][0])
            good = re_.inspected and all(re_.ok_dominates(ob) for ob in oks) and not any(ob in re_.reachable_from_err() for ob in oks) and bool(oks)
        ctx.ob('C06.W5', m, bool(good), site(b),
               'client returns Ok only on the success edge of the RPC send' if good else 'client can return Ok although the RPC failed')
    # the API factory closures propagate the client result
    n = 0
    for m in API:
        root = None
        for cand in facts.bodies.values():
            if cand.kind == 'coroutine' and cand.name == EC + 'ReplicatedStoreHandle::%s::{closure#0}' % m:
                root = cand
        if root is None:
            continue
        grp = facts.group(root)
        # the per-node request future: a coroutine of the group, or of an async helper the group calls
        cands = [g for g in grp if g is not root and g.kind == 'coroutine']
        cg_ = CallGraph(facts)
        for rb in cg_.reach(grp, bound=2):
            for ch in facts.group(rb):
                if ch.kind == 'coroutine' and ch not in cands and ch is not root and ch.crate == root.crate and ch.name.startswith(EC):
                    cands.append(ch)
        for g in cands:
            calls = list(g.calls())
            cl = [(bb, t) for bb, t in calls if cname(t) and re.match(re.escape(EC) + r'rpc::client::ConsistencyClient::(put|multi_put|del|multi_del)$', cname(t))]
            if not cl:
                continue
            n += 1
            flow = Flow(g)
            re_ = ResultEdges(g, flow, cl[0][0])
            oks = ok_return_blocks(g)
            good = re_.inspected and bool(oks) and all(re_.ok_dominates(ob) for ob in oks) and not any(ob in re_.reachable_from_err() for ob in oks)
            if not oks:
                # the client's result is handed back itself (only its error is mapped): Ok exactly when the replica call succeeded
                out_l = awaited_output_local(g, flow, cl[0][0])
                prods = return_value_blocks(g)
                good = out_l is not None and bool(prods) and all(
                    s_.get('k') == 'call' and cname(s_) in ('core::result::Result::map_err', 'core::ops::try_trait::FromResidual::from_residual', 'core::result::Result::or_else')
                    and out_l in flow.backward([op_local(s_['args'][0])]) for _rb, s_ in prods)
            ctx.ob('C06.W5', 'factory|' + m, good, site(g, cl[0][1]['cs']),
                   'the per-node request future yields Ok only when the replica call succeeded' if good else 'the per-node request reports Ok although the replica call failed')
    ctx.floor('C06.W5', 'API request factories', n, 4)


def check(ctx):
    facts = ctx.facts('prod')
    import carrier_abs
    carrier_abs.check_member_constructor(ctx, facts, 'C06.W8')
    # SEM (API level): the four public write paths interpreted end to end against every outcome of node selection, of the local
    # write and of the two selected replicas (api_abs); subsumes W1, W3 and W5, which are evaluated only when a construct is not modelled
    import api_abs
    api_sem = api_abs.check_api(ctx, facts, 'C06.SEM')
    if not api_sem:
        check_api(ctx, facts)
        check_W3(ctx, facts)
    else:
        import write_abs
        write_abs.check_counting(ctx, facts, 'C06.SEM')      # (the finer 16-outcome table of the counting function, when it can be found)
    check_W4(ctx, facts)
    if not api_sem:
        check_W5(ctx, facts)
    # W7: the selector answers from the CURRENT membership (C15.N1/N2 re-evaluated here: nodes_selector.rs is one of C06's anchors)
    import c15
    n0 = len(ctx.obs)
    c15.check_actor(ctx, facts, rule='C06.W7.SEM')
    c15.check_N8(ctx, facts, rule='C06.W9')
    for o in ctx.obs[n0:]:
        if not o.rule.startswith('C06.'):
            o.rule = 'C06.W7'
