"""P-AMBIENT: the outcome of a CRDT operation is a function of the set and the operation.

The merge laws (C03), arrival-order independence (C04) and the exactness of the computed difference (C05) all quantify over
states and operations only: two replicas that hold the same state and are handed the same operation must end in the same state
WHENEVER they are handed it.  A necessary structural condition, decided here on the call graph and the per-body derived-from
relation: no operation of the set or of its version vectors lets an AMBIENT reading — the wall clock, a monotonic clock,
randomness, the environment, a thread / process id — decide a branch, a returned value or a value written behind a reference.

  * ambient-valued callees: the std / rand entry points of `AMBIENT`, and (to a fixpoint) every workspace function whose
    returned value is derived from an ambient-valued call;
  * roots: every non-derived body of the CRDT crate that is a method of the set or of its version vectors (inherent or a trait
    impl), found by the ADT they are methods of;
  * for every body reachable from a root: a call to an ambient-valued callee whose result flows into a switch discriminant, the
    returned value or a store through a reference is reported (a reading that only feeds a metrics / logging call is not).

Positive control (the expected count on the pinned tree is zero): the crate's own wall-clock helper must be found ambient-valued
on every run, otherwise the rule is blind and fails closed."""
import re
from analysis import CallGraph, Flow, cname, op_local
from facts import strip_generics, last_seg

CR = 'datacake_crdt'

AMBIENT = re.compile(
    r'^(std::time::SystemTime::now|std::time::Instant::now|std::time::SystemTime::elapsed|std::time::Instant::elapsed'
    r'|tokio::time::Instant::now|tokio::time::instant::Instant::now|tokio::time::instant::Instant::elapsed'
    r'|std::env::(var|var_os|vars|args|current_dir|temp_dir)'
    r'|std::thread::current|std::process::id'
    r'|rand::.*|fastrand::.*|getrandom::.*'
    r'|std::collections::hash::map::RandomState::new|std::hash::random::RandomState::new)$')


def _site(b, line=None):
    return '%s:%s' % (b.file, line if line is not None else b.line)


def _ambient_uses(body, is_ambient):
    """[(callee, line, how)] for ambient-valued calls of `body` whose result decides something"""
    out = []
    calls = [(blk, t) for blk, t in body.calls() if (cname(t) or '') and is_ambient(t)]
    if not calls:
        return out
    fl = Flow(body, all_calls=True)
    sw = set()
    for blk in body.blocks:
        t = blk['t']
        if t['k'] == 'switch':
            l = op_local(t['discr'])
            if l is not None:
                sw.add(l)
        if t['k'] == 'assert':
            l = op_local(t.get('cond'))
            if l is not None:
                sw.add(l)
    stores = set()
    for _b, _j, s in body.assigns():
        if s['lhs']['p'] and '*' in s['lhs']['p']:
            from analysis import rv_places
            for pl in rv_places(s['rv']):
                stores.add(pl['l'])
    for blk, t in calls:
        d = t['dest']['l']
        reach = fl.forward([d])
        how = []
        if reach & sw:
            how.append('decides a branch')
        if 0 in reach and body.kind != 'const':
            how.append('reaches the returned value')
        if reach & stores:
            how.append('is stored behind a reference')
        if how:
            out.append((cname(t), t.get('l'), ' and '.join(how)))
    return out


def check_pure_core(ctx, facts, rule, floor_roots=10):
    cg = CallGraph(facts)
    # ---- ambient-valued workspace functions, to a fixpoint -------------------------------------------------------------
    amb_fns = {}

    def is_ambient(t):
        n = cname(t) or ''
        if AMBIENT.match(strip_generics(n)):
            return True
        for tb in cg.targets(t):
            if tb.defp in amb_fns:
                return True
        return False
    changed = True
    rounds = 0
    while changed and rounds < 8:
        changed = False
        rounds += 1
        for b in facts.bodies.values():
            if b.d['promoted'] or b.derived or b.defp in amb_fns or not b.crate.startswith('datacake'):
                continue
            uses = _ambient_uses(b, is_ambient)
            if any('returned value' in h for _c, _l, h in uses):
                amb_fns[b.defp] = uses
                changed = True
    # positive control: the crate's wall-clock helper(s)
    ctrl = [d for d in amb_fns if d.startswith(CR + '::')]
    ctx.ob(rule, 'control|wall-clock-helper-recognised', bool(ctrl), '',
           ('ambient-valued functions of the CRDT crate found on this run: %s' % sorted(strip_generics(d) for d in ctrl)[:6]) if ctrl else
           'no function of the CRDT crate was found to return a wall-clock reading (HLCTimestamp::now / get_datacake_timestamp exist on the '
           'pinned tree): the ambient table does not match this toolchain\'s paths — the rule would be blind (fail closed)')
    # ---- roots -----------------------------------------------------------------------------------------------------------
    adts = [n for n in facts.adts if n.startswith(CR + '::') and (n.endswith('::OrSWotSet') or n.endswith('::NodeVersions'))]
    roots = []
    for b in facts.bodies.values():
        if b.crate != CR or b.d['promoted'] or b.derived or b.kind not in ('method', 'fn', 'assoc_fn', 'function'):
            continue
        nm = strip_generics(b.name)
        if any(nm.startswith(a + '::') or nm.startswith('<' + a + ' as ') or nm.startswith('<' + a + '<') for a in adts):
            roots.append(b)
    ctx.floor(rule, 'operations of the set and of its version vectors', len(roots), floor_roots)
    reach = {}
    for r in roots:
        for b in cg.reach([r]):
            reach.setdefault(b.defp, r)
    n_calls = 0
    bad = 0
    for d, r in sorted(reach.items()):
        b = facts.bodies[d]
        if b.derived or not b.crate.startswith('datacake'):
            continue
        n_calls += sum(1 for _ in b.calls())
        if d in amb_fns and b.crate == CR and not any(strip_generics(b.name).startswith(a + '::') for a in adts):
            # an ambient-valued helper reachable from the core is judged at its call site in the core (below)
            continue
        for callee, line, how in _ambient_uses(b, is_ambient):
            bad += 1
            ctx.bad(rule, 'ambient|%s|%s' % (strip_generics(b.name), strip_generics(callee)), _site(b, line),
                    '%s (reachable from %s) reads %s and the reading %s: the outcome of a set operation then depends on WHEN / WHERE it runs, not only on '
                    'the set and the operation — two replicas handed the same operations in a different order, or at a different time, end differently'
                    % (strip_generics(b.name), strip_generics(r.name), strip_generics(callee), how))
    if not bad:
        ctx.ok(rule, 'ambient|none', '',
               '%d operations of the set / version vectors and the %d workspace bodies they reach (%d call sites): no wall-clock, monotonic-clock, random, '
               'environment or thread / process reading decides a branch, a returned value or a stored value' % (len(roots), len(reach), n_calls))
    return True
