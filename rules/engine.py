"""Runner support: source hashing, fact extraction with caching, obligations, evidence."""
import fcntl
import hashlib
import json
import os
import shutil
import subprocess
import sys
import time

VERIF = os.path.dirname(os.path.dirname(os.path.abspath(__file__)))
REPO = os.environ.get('DATACAKE_REPO', '/repo')
CACHE = os.path.join(VERIF, '.cache')
DRIVER = os.path.join(VERIF, 'driver', 'target', 'release', 'dcfacts')

CONFIGS = {
    # cfg name -> cargo arguments (DESIGN §3)
    'prod': ['-p', 'datacake-crdt', '-p', 'datacake-rpc', '-p', 'datacake-node',
             '-p', 'datacake-eventual-consistency', '-p', 'datacake-sqlite',
             '-p', 'datacake-lmdb', '-p', 'datacake'],
    'testutils': ['-p', 'datacake-eventual-consistency', '--features', 'test-utils'],
    'sim': ['-p', 'datacake-rpc', '--features', 'simulation'],
    'release': ['--release', '-p', 'datacake-rpc'],
}
EXPECTED_FILES = {
    'prod': ['datacake_crdt', 'datacake_rpc', 'datacake_node', 'datacake_eventual_consistency',
             'datacake_sqlite', 'datacake_lmdb'],
    'testutils': ['datacake_eventual_consistency'],
    'sim': ['datacake_rpc'],
    'release': ['datacake_rpc'],
}


def source_hash(repo=None):
    repo = repo or REPO
    h = hashlib.sha256()
    files = []
    for root, dirs, fs in os.walk(repo):
        dirs[:] = sorted(d for d in dirs if d not in ('target', '.git'))
        for f in sorted(fs):
            if f.endswith('.rs') or f in ('Cargo.toml', 'Cargo.lock'):
                files.append(os.path.join(root, f))
    for p in files:
        h.update(os.path.relpath(p, repo).encode())
        h.update(b'\0')
        with open(p, 'rb') as fh:
            h.update(fh.read())
        h.update(b'\0')
    # the extractor is part of the key
    for extra in (os.path.join(VERIF, 'driver', 'src', 'main.rs'),):
        with open(extra, 'rb') as fh:
            h.update(fh.read())
    return h.hexdigest()[:20], len(files)


def nightly_sysroot():
    return subprocess.check_output(['rustc', '+nightly', '--print', 'sysroot'], text=True).strip()


def ensure_driver():
    src = os.path.join(VERIF, 'driver', 'src', 'main.rs')
    if os.path.exists(DRIVER) and os.path.getmtime(DRIVER) >= os.path.getmtime(src):
        return
    env = dict(os.environ, CARGO_NET_OFFLINE='true')
    subprocess.check_call(['cargo', '+nightly', 'build', '--release', '--offline'],
                          cwd=os.path.join(VERIF, 'driver'), env=env,
                          stdout=subprocess.DEVNULL, stderr=subprocess.DEVNULL)


class ExtractionError(Exception):
    pass


def extract(cfg, repo, out_dir, target_dir, log):
    """Run the extractor for one configuration on `repo`; facts go to out_dir."""
    os.makedirs(out_dir, exist_ok=True)
    os.makedirs(target_dir, exist_ok=True)
    # cargo must not skip the wrapper: remove the workspace members' fingerprints
    for prof in ('debug', 'release'):
        fp = os.path.join(target_dir, prof, '.fingerprint')
        if os.path.isdir(fp):
            for d in os.listdir(fp):
                if d.startswith('datacake') or d.startswith('test-helper'):
                    shutil.rmtree(os.path.join(fp, d), ignore_errors=True)
    env = dict(os.environ)
    env.update({
        'DCFACTS_OUT': out_dir,
        'DCFACTS_TAG': cfg,
        'CARGO_INCREMENTAL': '0',
        'CARGO_NET_OFFLINE': 'true',
        'RUSTFLAGS': '-Zmir-opt-level=0 -Awarnings',
        'RUSTC_WORKSPACE_WRAPPER': DRIVER,
        'CARGO_TARGET_DIR': target_dir,
        'LD_LIBRARY_PATH': nightly_sysroot() + '/lib',
    })
    env.pop('RUSTC_WRAPPER', None)
    start = time.time()
    cmd = ['cargo', '+nightly', 'check', '--offline'] + CONFIGS[cfg]
    p = subprocess.run(cmd, cwd=repo, env=env, stdout=subprocess.PIPE, stderr=subprocess.STDOUT, text=True)
    log.append({'cfg': cfg, 'cmd': ' '.join(cmd), 'rc': p.returncode, 'wall_s': round(time.time() - start, 1)})
    if p.returncode != 0:
        raise ExtractionError('cargo check failed for config %s:\n%s' % (cfg, p.stdout[-4000:]))
    for cr in EXPECTED_FILES[cfg]:
        f = os.path.join(out_dir, '%s.%s.json' % (cr, cfg))
        if not os.path.exists(f) or os.path.getmtime(f) < start - 1:
            raise ExtractionError('fact file %s missing or stale after extraction (config %s)' % (f, cfg))


def ensure_facts(cfgs, repo=None, log=None):
    """Return the directory holding fact files for the current working tree of `repo`,
    extracting the configurations that are not cached yet."""
    repo = repo or REPO
    log = log if log is not None else []
    ensure_driver()
    h, nfiles = source_hash(repo)
    base = os.path.join(CACHE, 'facts', h)
    os.makedirs(base, exist_ok=True)
    try:
        os.utime(base, None)      # (the eviction below keeps the most recently USED fact directories)
    except OSError:
        pass
    slot = os.environ.get('DC_TARGET_SLOT', '')
    lock_path = os.path.join(CACHE, 'extract%s.lock' % slot)
    with open(lock_path, 'w') as lf:
        fcntl.flock(lf, fcntl.LOCK_EX)
        try:
            for cfg in cfgs:
                done = os.path.join(base, cfg + '.done')
                if os.path.exists(done):
                    log.append({'cfg': cfg, 'cached': True})
                    continue
                extract(cfg, repo, base, os.path.join(CACHE, 'target' + slot, cfg), log)
                with open(done, 'w') as f:
                    f.write(str(time.time()))
            # keep the cache small: drop fact dirs other than the newest 6
            root = os.path.join(CACHE, 'facts')
            ds = []
            for d in os.listdir(root):
                try:
                    ds.append((os.path.getmtime(os.path.join(root, d)), d))
                except OSError:
                    pass     # removed concurrently by another worker
            for _, d in sorted(ds)[:-24]:
                if d != h:
                    shutil.rmtree(os.path.join(root, d), ignore_errors=True)
        finally:
            fcntl.flock(lf, fcntl.LOCK_UN)
    return base, h, nfiles


# ---------------------------------------------------------------------------
# obligations
# ---------------------------------------------------------------------------

class Ob:
    """One obligation: rule applied at one instance."""

    def __init__(self, rule, key, ok, site='', detail='', witness=None, nontrivial=True):
        self.rule = rule          # e.g. 'C02.O1'
        self.key = key            # instance key, no line numbers
        self.ok = ok
        self.site = site          # file:line (diagnostic only)
        self.detail = detail      # what was established / what is wrong
        self.witness = witness    # dominating edge, chain, normal form ...
        self.nontrivial = nontrivial

    @property
    def full_key(self):
        return '%s|%s' % (self.rule, self.key)

    def to_json(self):
        return {'rule': self.rule, 'key': self.key, 'verdict': 'holds' if self.ok else 'VIOLATED',
                'site': self.site, 'detail': self.detail, 'witness': self.witness}


def site(body, line=None):
    return '%s:%s' % (body.file, line if line is not None else body.line)


class Ctx:
    def __init__(self, facts_dir, tier):
        self.facts_dir = facts_dir
        self.tier = tier
        self._facts = {}
        self.obs = []
        self.notes = []

    def facts(self, cfg):
        from facts import Facts
        if cfg not in self._facts:
            self._facts[cfg] = Facts(self.facts_dir, cfg)
        return self._facts[cfg]

    def ob(self, *a, **kw):
        o = Ob(*a, **kw)
        self.obs.append(o)
        return o

    def ok(self, rule, key, site='', detail='', witness=None, nontrivial=True):
        return self.ob(rule, key, True, site, detail, witness, nontrivial)

    def bad(self, rule, key, site='', detail='', witness=None):
        return self.ob(rule, key, False, site, detail, witness, True)

    def floor(self, rule, what, found, floor):
        """fail closed when a rule matched fewer instances than were confirmed by hand"""
        if found < floor:
            self.bad(rule, 'floor|' + what, '',
                     'rule matched %d instance(s) of "%s", fewer than the %d confirmed by hand: '
                     'an anchor could not be found (fail closed)' % (found, what, floor))
        else:
            self.ok(rule, 'floor|' + what, '', '%d instance(s) of "%s" (floor %d)' % (found, what, floor),
                    nontrivial=False)


def load_known():
    p = os.path.join(VERIF, 'known_findings.json')
    if not os.path.exists(p):
        return []
    with open(p) as f:
        return json.load(f)['findings']
