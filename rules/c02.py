"""C02 — replicated metadata and persisted store never disagree (per node).  DESIGN §5 C02."""
from analysis import *  # noqa
from facts import strip_generics, ty_head, op_local, op_place
from engine import site
import gate

CONFIGS = ['prod', 'testutils']
EXPLANATION = (
    'O6: the store registers its RPC services and starts its tasks only after the rebuild of the sets from storage succeeded (C07.R3 re-evaluated). '
    'ST: every provided method of the Storage trait that takes documents (put_with_ctx, multi_put_with_ctx) interpreted with / without a context against an implementor answering Ok / an error: it calls the required method of its own name once with the caller\'s keyspace and documents and returns that result unchanged. '
    'SEM (primary): the five keyspace-actor handlers are interpreted sequentially on abstract messages (pre-state of the key x every answer storage can giv'
    'e, incl. a bulk call failing part-way; the real OrSWotSet code runs underneath): nothing is written for an operation the set refuses, a mutation reach'
    'es the set exactly when storage reported it written, the change stamp is bumped whenever the set changes, a purge forgets exactly what storage removed'
    '; MSEM: the in-memory backend against the reference key-value model. Structural fallback (used only when a construct is not modelled): '
    'Static decision of necessary structural clauses of C02 on the MIR of every keyspace-actor handler that '
    'both writes storage and folds the replicated set (anchors found by role): '
    'O1 the set is folded only on the success edge of the storage write (single ops), never on its error edge, the result is '
    'inspected, and once storage accepted the write every path to a return folds the set; O2 bulk ops fold exactly the ids storage reports as written (Err region: loop over a Filter '
    'whose closure is true iff successful_doc_ids contains the id; Ok region: the recorded valid entries; the record is '
    'pushed only behind the will_apply filter of the iterator handed to storage, nothing drops or adds documents between the record and the '
    'storage call, and each region runs its fold loop on every path); O3 a failed purge re-adds exactly the '
    'tombstones storage did not remove; O4 will_apply gates the write; G the will_apply gate and the mutators decide with '
    'the same NodeVersions predicate. Does NOT decide value-level agreement (duplicate ids in one bulk call) nor third-party '
    'Storage implementations.')
ASSUMPTIONS = [
    'puppet processes one message at a time with &mut self (actor turn is atomic w.r.t. other handlers)',
    'Storage implementations report successful_doc_ids truthfully',
]

ST = 'datacake_eventual_consistency::storage::Storage::'
SINGLE_W = {ST + 'put_with_ctx', ST + 'put', ST + 'mark_as_tombstone'}
BULK_W = {ST + 'multi_put_with_ctx', ST + 'multi_put', ST + 'mark_many_as_tombstone'}
PURGE_W = {ST + 'remove_tombstones'}
OS = 'datacake_crdt::orswot::OrSWotSet::'
SET_M = {OS + 'insert_with_source', OS + 'delete_with_source', OS + 'insert', OS + 'delete'}
SET_OTHER = {OS + 'add_raw_tombstones', OS + 'purge_old_deletes', OS + 'merge'}
WILL_APPLY = OS + 'will_apply'


def anchors(facts):
    out = []
    for b in facts.bodies.values():
        if b.crate != 'datacake_eventual_consistency' or b.d['promoted']:
            continue
        names = {cname(t) for _, t in b.calls()}
        if names & (SINGLE_W | BULK_W | PURGE_W) and names & (SET_M | SET_OTHER):
            out.append(b)
    return sorted(out, key=lambda b: b.name)


def short(b):
    return b.name.replace('datacake_eventual_consistency::', '').replace('::{closure#0}', '')


def closure_def_of_local(body, local):
    """closure def path if `local` is assigned a closure aggregate"""
    for _b, _j, s in body.assigns():
        if s['lhs']['l'] == local and not s['lhs']['p']:
            rv = s['rv']
            if rv['k'] == 'aggregate' and rv['agg'] in ('closure', 'coroutine'):
                return rv['def'], rv['ops']
    return None, None


def iterator_chain(body, flow, start_local):
    """Walk backwards from an iterator local collecting the adaptor calls on the chain:
    returns (list of (adaptor name, closure def, closure capture ops), set of locals on chain)"""
    back = flow.backward([start_local])
    adaptors = []
    for b, t in body.calls():
        n = cname(t)
        if t['dest']['l'] in back and n and n.startswith('core::iter::traits::iterator::Iterator::'):
            meth = n.rsplit('::', 1)[1]
            cdef = caps = None
            if len(t['args']) >= 2:
                cl = op_local(t['args'][1])
                if cl is not None:
                    cdef, caps = closure_def_of_local(body, cl)
            adaptors.append((meth, cdef, caps, b))
    return adaptors, back


def next_call_feeding(body, flow, call_term):
    """the Iterator::next call whose item feeds the arguments of `call_term`"""
    srcs = set()
    for a in call_term['args'][1:]:
        l = op_local(a)
        if l is not None:
            srcs |= flow.backward([l])
    for b, t in body.calls():
        if cname(t) == 'core::iter::traits::iterator::Iterator::next' and t['dest']['l'] in srcs:
            return b, t
    return None, None


def polarity(facts, cdef, callee_pred):
    """(value when callee true, value when callee false) of closure `cdef`'s return"""
    cb = facts.bodies.get(cdef)
    if cb is None:
        return None
    n = len([1 for _, t in cb.calls() if callee_pred(cname(t))])
    if n == 0:
        return None
    res = []
    for assumed in (True, False):
        r = bool_eval(cb, lambda b, t, a=assumed: a if callee_pred(cname(t)) else None)
        res.append(r)
    return res


def check(ctx):
    facts = ctx.facts('prod')
    # SEM: the five handlers of the keyspace actor, interpreted on abstract messages against every answer storage can give
    # (handlers_abs).  Subsumes the structural clauses O1-O5, which are evaluated only when a construct is not modelled.
    # MSEM: the bundled in-memory backend records what the handlers hand it (reference key-value model; test_utils.rs is one of C02's anchors)
    import memstore_abs
    try:
        tu = ctx.facts('testutils')
    except Exception:
        tu = None
    if tu is not None:
        memstore_abs.check_memstore(ctx, tu, 'C02.MSEM')
    # ST: the provided *_with_ctx methods of the Storage trait hand the implementor's answer on untouched (storage_abs) — the handler
    # summaries take a storage call for an oracle that reports truthfully, and for the bundled backends the report is the required method's
    import storage_abs
    storage_abs.check_defaults(ctx, facts, 'C02.ST')
    # O6: at start-up the set is rebuilt from the store before anything that can write is served (= C07.R3): a write served during the
    # rebuild is stored through a temporary actor that the loader then replaces — the store holds a document the set lacks (round 7, C02g).
    import c07
    c07.check_R3(ctx, facts, rule='C02.O6')
    import handlers_abs
    if handlers_abs.check_handlers(ctx, facts, 'C02.SEM'):
        gate.check_gate(ctx, facts, 'C02.G')
        return
    A = anchors(facts)
    ctx.floor('C02.ANCHORS', 'handlers that write storage and fold the set', len(A), 5)
    n_single = n_bulk = n_purge = 0
    for body in A:
        flow = Flow(body)
        name = short(body)
        calls = list(body.calls())
        W_single = [(b, t) for b, t in calls if cname(t) in SINGLE_W]
        W_bulk = [(b, t) for b, t in calls if cname(t) in BULK_W]
        W_purge = [(b, t) for b, t in calls if cname(t) in PURGE_W]
        Ms = [(b, t) for b, t in calls if cname(t) in SET_M]

        # ---- O1 / O4 single ops --------------------------------------------
        for wb, wt in W_single:
            n_single += 1
            wname = cname(wt).rsplit('::', 1)[1]
            re_ = ResultEdges(body, flow, wb)
            key = '%s|%s' % (name, wname)
            if not re_.inspected:
                ctx.bad('C02.O1', key + '|inspected', site(body, wt['cs']),
                        'result of storage write %s is never inspected: the set would be folded whether or not storage accepted the write' % wname)
                continue
            err_reach = re_.reachable_from_err()
            for mb, mt in Ms:
                mname = cname(mt).rsplit('::', 1)[1]
                k2 = '%s->%s' % (key, mname)
                if not re_.ok_dominates(mb):
                    ctx.bad('C02.O1', k2, site(body, mt['cs']),
                            'set mutation %s is not dominated by the success edge of storage write %s (fold without a confirmed write)' % (mname, wname),
                            {'write_block': wb, 'mutation_block': mb, 'ok_edges': re_.ok})
                elif mb in err_reach:
                    ctx.bad('C02.O1', k2, site(body, mt['cs']),
                            'set mutation %s is reachable from the failure edge of storage write %s' % (mname, wname),
                            {'err_edges': re_.err})
                else:
                    ctx.ok('C02.O1', k2, site(body, mt['cs']),
                           '%s dominated by success edge of %s, unreachable from its failure edge' % (mname, wname),
                           {'ok_edges': re_.ok, 'err_edges': re_.err})
            # O5 (single): an operation is left unapplied only on the false edge of will_apply
            gates_ = [(b, t) for b, t in calls if cname(t) == WILL_APPLY]
            refuse_edges = []
            for gb, gt in gates_:
                for sb, st in switch_on(body, gt['dest']['l']):
                    tm = {int(v): tb for v, tb in st['targets']}
                    refuse_edges.append((sb, tm.get(0, st['otherwise'])))
                # through `Not`
                for _b, _j, s_ in body.assigns():
                    if s_['rv']['k'] == 'un' and s_['rv']['op'] == 'Not' and op_local(s_['rv']['a']) == gt['dest']['l']:
                        for sb, st in switch_on(body, s_['lhs']['l']):
                            tm = {int(v): tb for v, tb in st['targets']}
                            refuse_edges.append((sb, st['otherwise'] if 0 in tm else tm.get(1)))
            esc = set(body.return_blocks()) & body.reachable_from([0], avoid=[wb], avoid_edges=[e for e in refuse_edges if e[1] is not None])
            ctx.ob('C02.O5', key + '|only-the-gate-skips', not esc, site(body, wt['cs']),
                   'the handler returns without the storage write only on the refusing edge of will_apply' if not esc else
                   'the handler can return without the storage write on a path other than the refusing edge of will_apply: a handed operation is '
                   'silently not applied')
            # O1b: the fold is not optional once storage accepted the write
            starts = [e[1] for e in re_.ok]
            mblocks = [mb for mb, _mt in Ms]
            if starts and mblocks:
                every = body.must_pass(starts, mblocks, body.return_blocks())
                ctx.ob('C02.O1', key + '|fold-on-every-success-path', every, site(body, wt['cs']),
                       'every path from the success edge of %s to a return folds the set' % wname if every else
                       'a path returns after storage accepted %s without folding the set: storage is ahead of the set (restart aside, the '
                       'document is invisible to repair and to will_apply)' % wname)
            # O4: write dominated by the true edge of will_apply
            gates = [(b, t) for b, t in calls if cname(t) == WILL_APPLY]
            good = False
            for gb, gt in gates:
                for sb, st in switch_on(body, gt['dest']['l']):
                    tm = {int(v): tb for v, tb in st['targets']}
                    true_t = st['otherwise'] if 0 in tm else tm.get(1)
                    if true_t is not None and body.edge_dominates((sb, true_t), wb):
                        good = True
            (ctx.ok if good else ctx.bad)('C02.O4', key, site(body, wt['cs']),
                                          'storage write %s %s dominated by the true edge of will_apply' % (wname, 'is' if good else 'is NOT'))

        # ---- O2 / O4 bulk ops ------------------------------------------------
        for wb, wt in W_bulk:
            n_bulk += 1
            wname = cname(wt).rsplit('::', 1)[1]
            key = '%s|%s' % (name, wname)
            re_ = ResultEdges(body, flow, wb)
            if not re_.inspected:
                ctx.bad('C02.O2', key + '|inspected', site(body, wt['cs']),
                        'result of bulk storage write %s is never inspected' % wname)
                continue
            # the iterator handed to storage: gate filter + recording map
            it_arg = None
            for a in wt['args'][1:]:
                l = op_local(a)
                if l is not None and 'core::iter::adapters' in body.local_ty(l):
                    it_arg = l
            rec_vec = None
            gate_ok = False
            order_ok = False
            if it_arg is not None:
                adaptors, _ = iterator_chain(body, flow, it_arg)
                filt = [a for a in adaptors if a[0] == 'filter']
                maps = [a for a in adaptors if a[0] == 'map']
                for _m, cdef, caps, _b in filt:
                    pol = polarity(facts, cdef, lambda n: n == WILL_APPLY) if cdef else None
                    if pol and pol[0] == {True} and pol[1] == {False}:
                        gate_ok = True
                for _m, cdef, caps, mb_ in maps:
                    cb = facts.bodies.get(cdef) if cdef else None
                    if cb and any(cname(t) == 'alloc::vec::Vec::push' for _, t in cb.calls()):
                        for c in caps or []:
                            l = op_local(c)
                            if l is not None:
                                roots = flow.backward([l])
                                for r in roots:
                                    if ty_head(body.local_ty(r)) == 'alloc::vec::Vec' and not body.local_ty(r).startswith('&'):
                                        rec_vec = r
                        # map must be applied to the filtered iterator (record behind the gate)
                        mt_ = body.term(mb_)
                        recv = op_local(mt_['args'][0])
                        if recv is not None and 'filter::Filter' in body.local_ty(recv):
                            order_ok = True
            # the only adaptor allowed to keep a handed document from storage is the will_apply gate
            foreign = []
            if it_arg is not None:
                for meth, cdef, _cp, ab in adaptors:
                    if meth in ('filter', 'filter_map', 'take', 'skip', 'step_by', 'take_while', 'skip_while', 'map_while'):
                        pol = polarity(facts, cdef, lambda n: n == WILL_APPLY) if cdef else None
                        if not (meth == 'filter' and pol and pol[0] == {True} and pol[1] == {False}):
                            foreign.append(meth)
            ctx.ob('C02.O5', key + '|only-the-gate-filters', not foreign, site(body, wt['cs']),
                   'a document handed to the actor is kept from storage only by the will_apply gate' if not foreign else
                   'besides the will_apply gate, `%s` keeps handed documents from storage (and from the set): operations the node was handed — e.g. '
                   'removals for documents it does not hold — are silently not applied, so the next exchange lists them again and a stale write is '
                   'later accepted' % ','.join(foreign))
            # nothing may drop items between the recording adaptor and storage
            late_drop = []
            if it_arg is not None:
                rec_blocks = [a[3] for a in adaptors if a[0] == 'map' and a[1] and facts.bodies.get(a[1]) and
                              any(cname(t) == 'alloc::vec::Vec::push' for _, t in facts.bodies[a[1]].calls())]
                for meth, _cd, _cp, ab in adaptors:
                    if meth in ('filter', 'filter_map', 'take', 'skip', 'step_by', 'take_while', 'skip_while', 'map_while', 'flat_map', 'chain', 'zip') \
                            and any(body.dominates(rb, ab) and rb != ab for rb in rec_blocks):
                        late_drop.append(meth)
            if rec_vec is not None and order_ok:
                ctx.ob('C02.O2', key + '|record-is-what-storage-gets', not late_drop, site(body, wt['cs']),
                       'no adaptor drops or adds documents between the record and the storage call' if not late_drop else
                       'after the documents were recorded for folding, `%s` changes what reaches storage: the set is folded for documents storage never saw'
                       % ','.join(late_drop))
            (ctx.ok if gate_ok else ctx.bad)(
                'C02.O4', key, site(body, wt['cs']),
                'iterator handed to %s %s filtered by a closure returning will_apply(..)' % (wname, 'is' if gate_ok else 'is NOT'))
            if rec_vec is None or not order_ok:
                ctx.bad('C02.O2', key + '|record', site(body, wt['cs']),
                        'cannot find the record of documents handed to storage (a Vec pushed inside a map adaptor chained after the will_apply filter)')
            else:
                ctx.ok('C02.O2', key + '|record', site(body, wt['cs']),
                       'documents handed to storage are recorded in _%d by a map adaptor chained after the will_apply filter' % rec_vec)
            for region, edges in (('ok', re_.ok), ('err', re_.err)):
                starts = [e[1] for e in edges]
                loops = []
                for mb, mt in Ms:
                    if (re_.ok_dominates(mb) if region == 'ok' else re_.err_dominates(mb)):
                        nb_, nt_ = next_call_feeding(body, flow, mt)
                        if nb_ is not None:
                            loops.append(nb_)
                if starts:
                    every = bool(loops) and body.must_pass(starts, loops, body.return_blocks())
                    ctx.ob('C02.O2', key + '|%s-region-folds-on-every-path' % region, every, site(body, wt['cs']),
                           'every path through the %s region of %s runs its fold loop' % (region.capitalize(), wname) if every else
                           'the %s region of %s can return without running a fold loop: documents storage wrote never become visible in the set'
                           % (region.capitalize(), wname))
            err_reach = re_.reachable_from_err()
            for mb, mt in Ms:
                mname = cname(mt).rsplit('::', 1)[1]
                in_ok = re_.ok_dominates(mb)
                in_err = re_.err_dominates(mb)
                region = 'ok' if in_ok else 'err' if in_err else None
                k2 = '%s->%s@%s' % (key, mname, region)
                if region is None:
                    ctx.bad('C02.O2', k2, site(body, mt['cs']),
                            'set mutation %s lies neither in the Ok nor in the Err region of bulk write %s' % (mname, wname))
                    continue
                nb, nt = next_call_feeding(body, flow, mt)
                if nt is None:
                    ctx.bad('C02.O2', k2, site(body, mt['cs']), 'set mutation is not fed from an iterator item (unrecognised idiom, fail closed)')
                    continue
                it_l = op_local(nt['args'][0])
                adaptors, back = iterator_chain(body, flow, it_l)
                from_rec = rec_vec is not None and rec_vec in back
                filts = [a for a in adaptors if a[0] == 'filter' and a[3] in body.reachable_from([wb])]
                if region == 'ok':
                    good = from_rec and not filts
                    ctx.ob('C02.O2', k2, good, site(body, mt['cs']),
                           'Ok region: %s iterates the recorded entries%s' % (mname, '' if good else ' — NOT (source is not the record, or an extra filter drops entries)'),
                           {'from_record': from_rec, 'filters': len(filts)})
                else:
                    good = False
                    why = 'no filter on the iterator: every recorded entry is folded although storage failed part-way'
                    for _m, cdef, caps, _b in filts:
                        pol = polarity(facts, cdef, lambda n: n.endswith('HashSet::contains') or n.endswith('::contains')) if cdef else None
                        if not pol:
                            why = 'filter closure does not test membership'
                            continue
                        if pol[0] == {True} and pol[1] == {False}:
                            # membership set must come from successful_doc_ids
                            src_ok = False
                            for c in caps or []:
                                l = op_local(c)
                                if l is None:
                                    continue
                                roots = flow.backward([l])
                                for b3, t3 in calls:
                                    if cname(t3) and cname(t3).endswith('BulkMutationError::successful_doc_ids') and t3['dest']['l'] in roots:
                                        src_ok = True
                            if src_ok:
                                good = True
                            else:
                                why = 'membership set is not derived from BulkMutationError::successful_doc_ids'
                        else:
                            why = 'filter keeps an entry when successful_doc_ids does NOT contain it (polarity %s/%s)' % (pol[0], pol[1])
                    ctx.ob('C02.O2', k2, good and from_rec, site(body, mt['cs']),
                           'Err region: %s folds exactly the recorded entries storage reports written' % mname if good and from_rec
                           else 'Err region: ' + (why if not good else 'source is not the record of handed documents'))

        # ---- O3 purge -----------------------------------------------------------
        for wb, wt in W_purge:
            n_purge += 1
            key = '%s|remove_tombstones' % name
            re_ = ResultEdges(body, flow, wb)
            readd = [(b, t) for b, t in calls if cname(t) == OS + 'add_raw_tombstones']
            purge = [(b, t) for b, t in calls if cname(t) == OS + 'purge_old_deletes']
            if not re_.inspected:
                ctx.bad('C02.O3', key + '|inspected', site(body, wt['cs']), 'result of remove_tombstones is never inspected')
                continue
            # keys handed to storage derive from the purge result
            pk = False
            for a in wt['args'][1:]:
                l = op_local(a)
                if l is not None and purge and purge[0][1]['dest']['l'] in flow.backward([l]):
                    pk = True
            ctx.ob('C02.O3', key + '|keys', pk, site(body, wt['cs']),
                   'keys given to remove_tombstones %s derived from purge_old_deletes()' % ('are' if pk else 'are NOT'))
            if not readd:
                ctx.bad('C02.O3', key + '|readd', site(body, wt['cs']),
                        'no add_raw_tombstones on the failure path: tombstones storage still holds are forgotten by the set')
            for rb, rt in readd:
                in_err = re_.err_dominates(rb)
                good = False
                why = ''
                if not in_err:
                    why = 'add_raw_tombstones is not confined to the failure edge of remove_tombstones'
                else:
                    l = op_local(rt['args'][1])
                    adaptors, back = iterator_chain(body, flow, l)
                    filts = [a for a in adaptors if a[0] == 'filter']
                    from_purge = purge and purge[0][1]['dest']['l'] in back
                    why = 're-added tombstones are not filtered by the ids storage removed'
                    for _m, cdef, caps, _b in filts:
                        pol = polarity(facts, cdef, lambda n: n.endswith('::contains')) if cdef else None
                        if pol and pol[0] == {False} and pol[1] == {True}:
                            good = bool(from_purge)
                            why = '' if good else 're-added tombstones do not come from the purge result'
                        elif pol:
                            why = 'filter keeps a tombstone when successful_doc_ids DOES contain it (polarity %s/%s): removed tombstones come back, kept ones are lost' % (pol[0], pol[1])
                ctx.ob('C02.O3', key + '|readd', good, site(body, rt['cs']),
                       'on failure exactly the tombstones not in successful_doc_ids are re-added' if good else why)

    ctx.floor('C02.O1', 'single storage writes', n_single, 2)
    ctx.floor('C02.O2', 'bulk storage writes', n_bulk, 2)
    ctx.floor('C02.O3', 'purge storage calls', n_purge, 1)
    gate.check_gate(ctx, facts, 'C02.G')
