"""C01.S9.SEM / C05.D5.SEM: the progress tracker and its watcher (P-ORDER).

The supervision of a repair exchange (C01.S3.SEM) asks the watcher two questions — is the modification task done, has it expired —
and takes the answers for facts about the task that holds the TRACKER.  That link is code of its own (storage.rs): tracker and
watcher share two atomics.  Both types are interpreted: a tracker is what its own `Default` builds, the task's copy is made with
the tracker's own `Clone`, the watcher with its own constructor; atomics are cells (shared through `Arc`), elapsed time is an
oracle answering "within the timeout" / "beyond it".  Decided:

  nothing reported                  -> is_done() is false; has_expired() is true exactly when the time since the last progress is beyond the timeout
  register_progress on the copy     -> is_done() false; has_expired() false whatever the elapsed time was (progress resets the deadline)
  set_done on the copy              -> is_done() true, has_expired() false
  a SECOND tracker's set_done       -> the first watcher still says not done (state is per exchange, not global)

An exchange reported done because the tracker expired, or a `Clone` that makes fresh counters (the supervisor never sees "done" and
fails every exchange), is a defect of repair (C01 / C05) that the supervision summary cannot see."""
import absint
from absint import Interp, Order, Cell, Unmodelled, NeedChoice, PanicPath, UNIT, mk_bool
from facts import last_seg, ty_head
import registry_abs

EC = 'datacake_eventual_consistency'


def hook_factory(elapsed_beyond):
    def hook(interp, name, args, t, body):
        seg = last_seg(name)
        a0 = interp.deref_all(args[0]) if args else None
        if 'atomic::Atomic' in name or name.startswith('core::sync::atomic::') or 'AtomicCell' in name:
            if seg == 'new':
                return ('adt', 'atomic', 0, [Cell(args[0])])
            if a0 is not None and a0[0] == 'adt' and a0[1] == 'atomic':
                if seg == 'load':
                    return a0[3][0].v
                if seg == 'store':
                    a0[3][0].v = args[1]
                    return UNIT
                if seg in ('fetch_add', 'fetch_sub'):
                    old = interp.deref_all(a0[3][0].v)
                    d = interp.deref_all(args[1])
                    if old[0] != 'int' or d[0] != 'int' or old[1] is None or d[1] is None:
                        raise Unmodelled('atomic arithmetic on an unknown value')
                    a0[3][0].v = ('int', old[1] + d[1] if seg == 'fetch_add' else old[1] - d[1])
                    return old
                if seg in ('swap', 'fetch_or', 'fetch_and'):
                    old = a0[3][0].v
                    if seg == 'swap':
                        a0[3][0].v = args[1]
                    else:
                        o, n = interp.deref_all(old), interp.deref_all(args[1])
                        a0[3][0].v = mk_bool((o[1] or n[1]) if seg == 'fetch_or' else (o[1] and n[1]))
                    return old
        if name == 'core::default::Default::default' and not args and not t['dest']['p']:
            ty = body.local_ty(t['dest']['l'])
            h = ty_head(ty)
            if h in ('alloc::sync::Arc',):
                inner = ty[ty.index('<') + 1:-1]
                if 'AtomicBool' in inner or 'Atomic<bool>' in inner:
                    return ('adt', 'atomic', 0, [Cell(mk_bool(False))])
                if 'Atomic' in inner:
                    return ('adt', 'atomic', 0, [Cell(('int', 0))])
            if 'AtomicBool' in ty or 'Atomic<bool>' in ty:
                return ('adt', 'atomic', 0, [Cell(mk_bool(False))])
            if 'Atomic' in ty:
                return ('adt', 'atomic', 0, [Cell(('int', 0))])
        if name.startswith('alloc::sync::Arc'):
            if seg == 'new' and args:
                return args[0]
            if seg in ('clone', 'deref', 'as_ref') and args:
                return args[0]
        if name == 'core::clone::Clone::clone' and a0 is not None and a0[0] == 'adt' and a0[1] == 'atomic':
            return a0                # Arc<Atomic..>::clone shares the cell
        if name.startswith('std::time::Instant::') or name.startswith('tokio::time::instant::Instant::'):
            if seg == 'now':
                return ('opaque', 'instant')
            if seg in ('elapsed', 'duration_since', 'saturating_duration_since'):
                return ('opaque', 'elapsed')
        if seg in ('gt', 'ge', 'lt', 'le') and len(args) == 2:
            a, b = interp.deref_all(args[0]), interp.deref_all(args[1])
            ea = a is not None and a[0] == 'opaque' and a[1] == 'elapsed'
            eb = b is not None and b[0] == 'opaque' and b[1] == 'elapsed'
            if ea != eb:
                beyond = elapsed_beyond
                # elapsed > timeout  /  timeout < elapsed  are "beyond"
                if (ea and seg in ('gt', 'ge')) or (eb and seg in ('lt', 'le')):
                    return mk_bool(beyond)
                return mk_bool(not beyond)
        if name.startswith('core::time::Duration::'):
            return ('opaque', 'timeout')
        return None
    return hook


def check_tracker(ctx, facts, rule):
    from orswot_abs import _fallback
    try:
        tr = [a for n, a in facts.adts.items() if n.startswith(EC + '::') and n.endswith('::ProgressTracker') and a['kind'] == 'struct']
        wa = [a for n, a in facts.adts.items() if n.startswith(EC + '::') and n.endswith('::ProgressWatcher') and a['kind'] == 'struct']
        if len(tr) != 1 or len(wa) != 1:
            raise Unmodelled('ProgressTracker / ProgressWatcher not found')
        T, W = tr[0]['def'], wa[0]['def']
        B = facts.bodies

        def need(n):
            b = B.get(n)
            if b is None or b.cfg is None:
                raise Unmodelled('%s not found' % n)
            return b
        t_default = need('<%s as core::default::Default>::default' % T)
        t_clone = need('<%s as core::clone::Clone>::clone' % T)
        w_new = need(W + '::new')
        w_done = need(W + '::is_done')
        w_exp = need(W + '::has_expired')
        t_done = need(T + '::set_done')
        t_prog = need(T + '::register_progress')
        results = {}
        for scen in ('nothing', 'progress', 'done', 'other-done'):
            for beyond in (False, True):
                it = Interp(facts, Order({}), opaque_call=hook_factory(beyond), step_limit=50000)
                it.opaque_fields = True
                tracker = it.run_body(t_default, [])
                other = it.run_body(t_default, [])
                copy = it.run_body(t_clone, [('ref', Cell(tracker))])
                watcher = Cell(it.run_body(w_new, [tracker, ('opaque', 'timeout')]))
                if scen == 'progress':
                    it.run_body(t_prog, [('ref', Cell(copy))])
                elif scen == 'done':
                    it.run_body(t_done, [('ref', Cell(copy))])
                elif scen == 'other-done':
                    it.run_body(t_done, [('ref', Cell(other))])
                exp = it.deref_all(it.run_body(w_exp, [('ref', watcher)]))
                done = it.deref_all(it.run_body(w_done, [('ref', watcher)]))
                results[(scen, beyond)] = (done[1] if done and done[0] == 'bool' else None, exp[1] if exp and exp[0] == 'bool' else None)
    except (Unmodelled, NeedChoice, PanicPath, IndexError, TypeError, KeyError, AttributeError, RecursionError) as e:
        return _fallback(ctx, rule, e)
    site_ = '%s:%s' % (w_exp.file, w_exp.line)
    want = {('nothing', False): (False, False), ('nothing', True): (False, True),
            ('progress', False): (False, False), ('progress', True): (False, False),
            ('done', False): (True, False), ('done', True): (True, False),
            ('other-done', False): (False, False), ('other-done', True): (False, True)}
    LAB = {'nothing': 'the task reported nothing', 'progress': 'the task registered progress on its copy of the tracker', 'done': 'the task set done on its copy of the tracker',
           'other-done': 'ANOTHER exchange\'s tracker was set done'}
    for scen in ('nothing', 'progress', 'done', 'other-done'):
        bad = []
        for beyond in (False, True):
            got, w = results[(scen, beyond)], want[(scen, beyond)]
            if got != w:
                bad.append('%s, time since the last progress %s the timeout: the watcher answers done=%s expired=%s, expected done=%s expired=%s' % (
                    LAB[scen], 'beyond' if beyond else 'within', got[0], got[1], w[0], w[1]))
        ctx.ob(rule, 'tracker|%s' % LAB[scen], not bad, site_,
               '%s: the watcher answers done=%s, expired %s' % (LAB[scen], want[(scen, False)][0], 'exactly when the timeout has passed' if want[(scen, True)][1] else 'never') if not bad else
               bad[0] + ' — the supervisor of a repair exchange takes these answers for facts about the task (an exchange recorded as complete that was not, or one that can never complete)')
    return True
