"""C16.SEM: what a membership consumer's peer set is after a history of membership events (P-TRACE).

A consumer is found by role: a coroutine of the store crate that owns the receiving end of a channel whose message type has a
variant carrying the membership delta.  Its service loop is interpreted over a scripted history -- rounds of queued events, one
round per timer tick -- with the timer, the kill switch and the channel as modelled effects.  The observation points are the
calls the loop makes into the workspace's asynchronous helpers (the repair poll, the batch execution): at each, the node ids and
addresses reachable from the arguments ARE the peers the consumer is about to address.  Decided per round: that set equals the
set the history prescribes (joined minus left, a node whose address changed carries the new address, nothing else alters it).
The representation of the peer set (map, sorted vector, newtype) and the loop's shape (for / for_each / extend / retain)
do not matter.  When a construct is outside the interpreter's vocabulary the structural clauses M3/M4 decide instead."""
import re
import absint
from absint import Interp, Order, Cell, MapObj, Unmodelled, UNIT, mk_option
from facts import strip_generics, last_seg, ty_head
import actor_abs
from actor_abs import World, ok, err, upvar_types

DELTA = 'datacake_node::MembershipChange'


def find_consumers(facts):
    out = []
    for b in facts.bodies.values():
        if b.crate != 'datacake_eventual_consistency' or b.kind != 'coroutine' or b.d['promoted'] or b.cfg is None:
            continue
        ups = upvar_types(b)
        for i, ty in ups.items():
            if not ty_head(ty).endswith('::Receiver') or '<' not in ty:
                continue
            inner = ty[ty.index('<') + 1:-1]
            a = facts.adts.get(ty_head(inner))
            if a is None or a['kind'] != 'enum':
                continue
            for vi, v in enumerate(a['variants']):
                if any(ty_head(f['ty']) == DELTA for f in v['fields']):
                    out.append((b, ups, i, ty_head(inner), vi))
                elif len(v['fields']) == 1 and converter_from_delta(facts, ty_head(v['fields'][0]['ty'])) is not None:
                    # the delta travels in a crate-private form built from it by one conversion function (From<MembershipChange> / a constructor)
                    out.append((b, ups, i, ty_head(inner), vi))
    return out


def converter_from_delta(facts, target):
    """the one function of the store crate that turns a membership delta into `target` (by signature), or None"""
    if target not in facts.adts or not target.startswith('datacake_eventual_consistency'):
        return None
    cands = []
    for b in facts.bodies.values():
        if b.crate != 'datacake_eventual_consistency' or b.d['promoted'] or b.kind not in ('fn', 'method') or b.cfg is None or b.argc != 1:
            continue
        if ty_head(b.local_ty(1).lstrip('&').strip()) == DELTA and ty_head(b.local_ty(0)) == target:
            cands.append(b)
    return cands[0] if len(cands) == 1 else None


def member_adt(facts):
    d = facts.adts[DELTA]['variants'][0]['fields']
    for f in d:
        m = re.match(r'alloc::vec::Vec<(.+)>$', f['ty'])
        if m and ty_head(m.group(1)) in facts.adts:
            return ty_head(m.group(1))
    raise Unmodelled('the delta does not carry vectors of a workspace member type')


def make_member(facts, madt, n, a):
    cells = []
    n_id = n_addr = 0
    for f in facts.adts[madt]['variants'][0]['fields']:
        if f['ty'] == 'u8':
            cells.append(Cell(('key', n)))
            n_id += 1
        elif 'SocketAddr' in f['ty']:
            cells.append(Cell(('addr', a)))
            n_addr += 1
        else:
            cells.append(Cell(('opaque', 'member-field:' + f['name'])))
    if n_id != 1 or n_addr != 1:
        raise Unmodelled('member type without exactly one node id and one address')
    return ('adt', madt, 0, cells)


def make_delta(facts, madt, joined, left):
    cells = []
    for f in facts.adts[DELTA]['variants'][0]['fields']:
        src = joined if f['name'] == 'joined' else left if f['name'] == 'left' else None
        if src is None:
            raise Unmodelled('unexpected field %s in the delta' % f['name'])
        cells.append(Cell(('vec', [make_member(facts, madt, n, a) for n, a in src])))
    return ('adt', DELTA, 0, cells)


def make_other(facts, opadt, vi):
    """some other message of the consumer's channel (a mutation to distribute): strings are a keyspace name, the rest opaque"""
    def leaf(ty):
        if ty in ('alloc::string::String', '&str') or ty.startswith('alloc::borrow::Cow<'):
            return ('key', 'ks')
        h = ty_head(ty)
        if h in facts.adts and facts.adts[h]['kind'] == 'enum':
            a = facts.adts[h]
            v0 = a['variants'][0]
            return ('adt', h, 0, [Cell(actor_abs.build_value(facts, f['ty'], leaf, 1)) for f in v0['fields']])
        if h in facts.adts:
            return None
        return ('opaque', 'payload:' + ty)
    v = facts.adts[opadt]['variants'][vi]
    return ('adt', opadt, vi, [Cell(actor_abs.build_value(facts, f['ty'], leaf)) for f in v['fields']])


# the history: per round, the membership deltas queued before the tick (joined, left); `want` is the peer set afterwards
HISTORY = [
    ([([('n1', 'a1'), ('n2', 'a2')], [])], {'n1': 'a1', 'n2': 'a2'}),
    ([([('n3', 'a3')], [('n1', 'a1')])], {'n2': 'a2', 'n3': 'a3'}),
    ([([('n2', 'a2b')], [('n2', 'a2')])], {'n2': 'a2b', 'n3': 'a3'}),              # address change: left and joined in one delta
    ([], {'n2': 'a2b', 'n3': 'a3'}),                                              # no event: nothing else changes the set
    ([([('n4', 'a4')], []), ([], [('n3', 'a3')])], {'n2': 'a2b', 'n4': 'a4'}),     # two deltas drained in one round
    ([([], [('n9', 'a9')])], {'n2': 'a2b', 'n4': 'a4'}),                          # a departure of a node never seen
    ([([('n2', 'a2c')], [])], {'n2': 'a2c', 'n4': 'a4'}),                         # a known node reported again with another address
]
LABELS = ['two nodes join', 'one joins, one leaves', 'a node changes its address (left old + joined new in one delta)', 'a round without membership events',
          'two deltas drained in one round', 'departure of an unknown node', 'a known node joins again with another address']


def extract(interp, vals):
    nodes, addrs = set(), set()
    seen = set()

    def walk(v, depth=0):
        if v is None or depth > 12:
            return
        t = v[0]
        if t == 'key':
            if re.match(r'^n\d', str(v[1])):
                nodes.add(v[1])
        elif t == 'addr':
            addrs.add(v[1])
        elif t == 'ref':
            if id(v[1]) in seen:
                return
            seen.add(id(v[1]))
            walk(v[1].v, depth + 1)
        elif t == 'adt':
            for c in v[3]:
                walk(c.v, depth + 1)
        elif t in ('tuple', 'arr'):
            for c in v[1]:
                walk(c.v, depth + 1)
        elif t == 'closure':
            for c in v[2]:
                walk(c.v, depth + 1)
        elif t == 'map':
            for k, c in v[1].items.items():
                walk(('key', k), depth + 1)
                walk(c.v, depth + 1)
        elif t == 'vec':
            for x in v[1]:
                walk(x.v if isinstance(x, Cell) else x, depth + 1)
        elif t == 'set':
            for k in v[1]:
                walk(('key', k), depth + 1)
    for v in vals:
        walk(v)
    return frozenset(nodes), frozenset(addrs)


class ConsumerWorld(World):
    def __init__(self, facts, rounds):
        World.__init__(self, hooks=[self.hook])
        self.facts = facts
        self.rounds = rounds
        self.tick = 0
        self.acts = []
        self.peer_args = set()

    def hook(self, world, interp, name, args, t, body):
        seg = last_seg(name)
        if seg in ('try_recv', 'recv', 'recv_timeout', 'try_iter') and ('channel' in name or name.startswith('flume::') or 'mpsc' in name):
            if seg == 'try_iter':
                raise Unmodelled('try_iter on the event channel')
            q = self.rounds[self.tick - 1] if 1 <= self.tick <= len(self.rounds) else []
            return ok(q.pop(0)) if q else err(('opaque', 'empty'))
        if name.startswith('tokio::time::'):
            if seg == 'tick':
                self.tick += 1
                return ('future', 'ready', ('opaque', 'instant'))
            if seg in ('interval', 'interval_at'):
                return ('opaque', 'interval')
            if seg in ('set_missed_tick_behavior', 'reset'):
                return UNIT
        if seg == 'load' and 'atomic' in name:
            return ('bool', self.tick > len(self.rounds))
        # observation point: an asynchronous helper of the workspace that is not part of the loop's own (inlined) code
        cal = self.facts.body(strip_generics(name)) if name.startswith('datacake') else None
        if cal is not None and cal.kind in ('fn', 'method') and cal.local_ty(0).startswith('impl core::future::future::Future'):
            self.acts.append((self.tick, name, extract(interp, args)))
            for i, a in enumerate(args):
                nodes_, addrs_ = extract(interp, [a])
                if nodes_ or addrs_:
                    self.peer_args.add((strip_generics(name), i))
            out = cal.local_ty(0)
            m = re.search(r'Output = (.*)>$', out)
            oty = m.group(1) if m else ''
            if oty == '()':
                v = UNIT
            elif ty_head(oty) == 'core::result::Result':
                v = ok(UNIT)
            else:
                v = ('opaque', 'output:' + oty)
            return ('future', 'ready', v)
        return None


def run_consumer(facts, entry, ups, rx_i, opadt, vi):
    madt = member_adt(facts)
    a = facts.adts[opadt]
    others = [j for j in range(len(a['variants'])) if j != vi]
    rounds = []
    for deltas, _want in HISTORY:
        q = []
        for j, l in deltas:
            payload = make_delta(facts, madt, j, l)
            fty = a['variants'][vi]['fields'][0]['ty']
            if ty_head(fty) != DELTA:
                conv = converter_from_delta(facts, ty_head(fty))
                it0 = Interp(facts, Order({}), step_limit=100000)
                it0.unknown_call = actor_abs.lenient_unknown
                it0.opaque_fields = True
                payload = it0.deref_all(it0.run_body(conv, [('ref', Cell(payload)) if conv.local_ty(1).startswith('&') else payload]))
            q.append(('adt', opadt, vi, [Cell(payload)]))
        # something to act on in every round (a consumer that only acts when it has work)
        for j in others[:1]:
            q.append(make_other(facts, opadt, j))
        rounds.append(q)

    def run(choices):
        world = ConsumerWorld(facts, [list(q) for q in rounds])
        # fresh copies of the scripted values per exploration
        world.rounds = [[absint.clone_value(v) for v in q] for q in rounds]
        upv = {}
        for i, ty in ups.items():
            if i == rx_i:
                upv[i] = ('chan', actor_abs.Chan())
            elif 'Atomic' in ty:
                upv[i] = ('opaque', 'kill-switch')
            else:
                upv[i] = actor_abs.build_value(facts, ty, lambda t_: None if ty_head(t_) in facts.adts and facts.adts[ty_head(t_)]['kind'] == 'struct'
                                               else ('opaque', 'ctx:' + t_))
        it = Interp(facts, Order({}), opaque_call=world.call)
        it.poll_hook = world.poll
        it.unknown_call = actor_abs.lenient_unknown
        it.choices = list(choices)
        it.fuel = 400000 if hasattr(it, 'fuel') else None
        n = max(upv) + 1
        st = ('closure', entry.defp, [Cell(upv.get(i, ('opaque', 'u'))) for i in range(n)])
        it.run_body(entry, [st, ('opaque', 'cx')])
        peer_args.update(world.peer_args)
        return it.oracle_log, list(world.acts)
    peer_args = set()
    return absint.explore(run), peer_args, a['variants'][vi]['name']


def check_consumers(ctx, facts, rule):
    from orswot_abs import _fallback
    try:
        cons = find_consumers(facts)
        if len(cons) < 2:
            raise Unmodelled('fewer than two membership consumers identified by role (%d)' % len(cons))
        results = {}
        info = {}
        for entry, ups, rx_i, opadt, vi in cons:
            res, peer_args, vname = run_consumer(facts, entry, ups, rx_i, opadt, vi)
            results[entry.name] = (entry, res)
            info[entry.defp] = {'peer_args': peer_args, 'variant': vname, 'op': opadt}
    except (Unmodelled, absint.NeedChoice, IndexError, TypeError, KeyError, AttributeError, RecursionError) as e:
        return _fallback(ctx, rule, e)
    for name, (entry, res) in sorted(results.items()):
        short = name.replace('datacake_eventual_consistency::', '').replace('::{closure#0}', '')
        site_ = '%s:%s' % (entry.file, entry.line)
        for r, (deltas, want) in enumerate(HISTORY):
            bad = []
            seen = 0
            for log, out in res:
                if out and isinstance(out, tuple) and out[0] == 'panic':
                    bad.append('a path panics')
                    continue
                acts = [a for a in out if a[0] == r + 1 and (a[2][0] or a[2][1])]
                if r == 0 and not [a for a in out if a[0] == r + 1]:
                    bad.append('the consumer never acts in a round with work to do')
                    continue
                seen += 1
                if not acts:
                    bad.append('no peer is addressed (expected %s)' % sorted(want.items()))
                    continue
                for _tick, callee, (nodes, addrs) in acts:
                    if set(addrs) != set(want.values()) or (nodes and set(nodes) != set(want)):
                        bad.append('%s is handed the peers %s / %s, expected %s' % (last_seg(callee), sorted(nodes), sorted(addrs), sorted(want.items())))
            ok_ = seen > 0 and not bad
            ctx.ob(rule, '%s|round%d|%s' % (short, r + 1, LABELS[r]), ok_, site_,
                   'after "%s" the consumer addresses exactly %s' % (LABELS[r], sorted(want.items())) if ok_ else
                   'after "%s": %s — the consumer\'s peer set drifts from the live membership' % (LABELS[r], bad[0] if bad else 'no path'))
    return info
