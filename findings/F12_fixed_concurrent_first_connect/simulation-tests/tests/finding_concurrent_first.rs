use std::net::{IpAddr, Ipv4Addr, SocketAddr};
use std::sync::atomic::{AtomicUsize, Ordering};
use std::sync::Arc;
use std::time::Duration;

use datacake::rpc::{Channel, Handler, Request, RpcClient, RpcService, Server, ServiceRegistry, Status};
use rkyv::{Archive, Deserialize, Serialize};
use turmoil::{lookup, Builder};

const PORT: u16 = 9999;

#[test]
/// Two requests issued concurrently on a channel that has not connected yet.
fn concurrent_first_requests_both_get_an_answer() -> turmoil::Result {
    let mut sim = Builder::new().build();

    sim.host("server", || async {
        let message_count = Arc::new(AtomicUsize::new(0));
        let server = Server::listen(get_listen_addr()).await?;
        server.add_service(MyService { message_count, simulate: Simulate::None });
        tokio::time::sleep(Duration::from_secs(5)).await;
        Ok(())
    });

    sim.client("client", async {
        let channel = Channel::connect(addr("server"));
        let client_a = RpcClient::<MyService>::new(channel.clone());
        let client_b = RpcClient::<MyService>::new(channel);
        let msg_a = MyMessage { name: "Alice".to_string(), age: 1 };
        let msg_b = MyMessage { name: "Bob".to_string(), age: 2 };
        let (ra, rb) = tokio::join!(client_a.send(&msg_a), client_b.send(&msg_b));
        let ra = ra.expect("first request answered");
        let rb = rb.expect("second request answered");
        assert_eq!(&*ra.deserialize_view().unwrap(), "Alice");
        assert_eq!(&*rb.deserialize_view().unwrap(), "Bob");
        Ok(())
    });

    sim.run()
}

fn get_listen_addr() -> SocketAddr {
    (IpAddr::from(Ipv4Addr::UNSPECIFIED), PORT).into()
}

fn addr(name: &str) -> SocketAddr {
    (lookup(name), PORT).into()
}

// The framework accepts any messages which implement `Archive` and `Serialize` along
// with the archived values implementing `CheckBytes` from the `bytecheck` crate.
// This is to ensure safe, validated deserialization of the values.
//
// Checkout rkyv for more information!
#[repr(C)]
#[derive(Serialize, Deserialize, Archive, PartialEq, Debug)]
#[archive(compare(PartialEq), check_bytes)]
#[archive_attr(derive(PartialEq, Debug))]
pub struct MyMessage {
    name: String,
    age: u32,
}

pub struct MyService {
    message_count: Arc<AtomicUsize>,
    simulate: Simulate,
}

impl RpcService for MyService {
    // The `register_handlers` is used to mark messages as something
    // the given service can handle and process.
    //
    // Messages which are not registered will not be dispatched to the handler.
    fn register_handlers(registry: &mut ServiceRegistry<Self>) {
        registry.add_handler::<MyMessage>();
    }
}

#[datacake::rpc::async_trait]
impl Handler<MyMessage> for MyService {
    type Reply = String;

    // Our `Request` gives us a zero-copy view to our message, this doesn't actually
    // allocate the message type.
    async fn on_message(&self, msg: Request<MyMessage>) -> Result<Self::Reply, Status> {
        self.message_count.fetch_add(1, Ordering::Relaxed);

        match self.simulate {
            // Simulate::Partition(a, b) => turmoil::partition(a, b),
            Simulate::Hold(a, b) => turmoil::hold(a, b),
            Simulate::None => {},
        }

        Ok(msg.deserialize_view().unwrap().name)
    }
}

enum Simulate {
    // Partition(&'static str, &'static str),
    Hold(&'static str, &'static str),
    None,
}
