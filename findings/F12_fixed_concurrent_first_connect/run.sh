#!/bin/bash
# demonstration of the defect repaired by the fix: commit (fails before it, passes after it)
cd simulation-tests && cargo test --offline --test finding_concurrent_first 2>&1 | tail -15
exit ${PIPESTATUS[0]}
