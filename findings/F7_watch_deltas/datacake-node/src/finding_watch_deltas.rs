//! KNOWN FINDING 7 (C16.M2): membership deltas travel on a latest-value-only channel.
//! In-crate test module (the watcher is private): run.sh appends `#[cfg(test)] mod finding_watch_deltas;` to lib.rs.
use std::collections::BTreeSet;
use std::net::SocketAddr;

use tokio::sync::watch;
use tokio_stream::wrappers::WatchStream;
use tokio_stream::StreamExt;

use crate::node::{ClusterMember, NodeMembership};
use crate::nodes_selector::{start_node_selector, DCAwareSelector};
use crate::rpc::network::RpcNetwork;
use crate::statistics::ClusterStatistics;
use crate::MembershipChange;

fn member(id: u8) -> ClusterMember {
    let addr: SocketAddr = format!("127.0.0.1:{}", 9000 + id as u16).parse().unwrap();
    ClusterMember::new(id, addr, "dc".to_string())
}

fn snapshot(ids: &[u8]) -> NodeMembership {
    ids.iter().map(|id| (*id, member(*id))).collect()
}

#[tokio::test]
async fn a_slow_subscriber_still_learns_every_join() {
    let (members_tx, members_rx) = watch::channel(snapshot(&[0]));
    let (changes_tx, changes_rx) = watch::channel(MembershipChange::default());
    let selector = start_node_selector(
        member(0).public_addr,
        std::borrow::Cow::Borrowed("dc"),
        DCAwareSelector::default(),
    )
    .await;
    tokio::spawn(crate::watch_membership_changes(
        0,
        RpcNetwork::default(),
        selector,
        ClusterStatistics::default(),
        WatchStream::new(members_rx),
        changes_tx,
    ));

    // the subscriber exists from the start but reads only once, at the end
    let mut subscriber = WatchStream::new(changes_rx);

    for ids in [&[0u8, 1][..], &[0, 1, 2][..], &[0, 1, 2, 3][..]] {
        members_tx.send(snapshot(ids)).unwrap();
        // let the watcher process this snapshot completely before the next one
        tokio::time::sleep(std::time::Duration::from_millis(150)).await;
    }

    // apply every change the subscriber is handed, in order
    let mut live: BTreeSet<u8> = BTreeSet::new();
    while let Ok(Some(change)) =
        tokio::time::timeout(std::time::Duration::from_millis(300), subscriber.next()).await
    {
        for m in change.joined {
            live.insert(m.node_id);
        }
        for m in change.left {
            live.remove(&m.node_id);
        }
    }
    assert_eq!(
        live,
        BTreeSet::from([1u8, 2, 3]),
        "the subscriber applied every change it was handed, yet does not hold the live membership"
    );
}
