#!/bin/bash
grep -q "mod finding_watch_deltas;" datacake-node/src/lib.rs || printf '\n#[cfg(test)]\nmod finding_watch_deltas;\n' >> datacake-node/src/lib.rs
cargo test --offline -p datacake-node --lib finding_watch_deltas 2>&1 | tail -25
exit ${PIPESTATUS[0]}
