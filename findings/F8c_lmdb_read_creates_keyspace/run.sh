#!/bin/bash
cargo test --offline -p datacake-lmdb --test finding_read_creates_keyspace 2>&1 | tail -25
exit ${PIPESTATUS[0]}
