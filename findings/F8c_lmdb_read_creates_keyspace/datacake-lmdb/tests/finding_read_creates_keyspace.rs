//! KNOWN FINDING 8c (C17.B3): a read on a keyspace that was never written creates and registers it.
use datacake_eventual_consistency::Storage;
use datacake_lmdb::LmdbStorage;

#[tokio::test]
async fn reads_do_not_change_the_keyspace_list() {
    let dir = std::env::temp_dir().join(format!("finding-8c-{}", std::process::id()));
    let _ = std::fs::remove_dir_all(&dir);
    std::fs::create_dir_all(&dir).unwrap();
    let store = LmdbStorage::open(&dir).await.expect("open");

    let before = store.get_keyspace_list().await.expect("list");
    assert!(before.is_empty());

    let doc = store.get("never-written", 1).await.expect("get");
    assert!(doc.is_none());
    let _ = store.iter_metadata("never-written-2").await.expect("iter").count();

    let after = store.get_keyspace_list().await.expect("list");
    let _ = std::fs::remove_dir_all(&dir);
    assert_eq!(before, after, "a read changed the keyspace list (reference model and the SQLite / in-memory backends return nothing)");
}
