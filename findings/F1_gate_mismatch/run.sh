#!/bin/bash
# run from the repository root after copying datacake-crdt/tests/finding_gate_mismatch.rs into place
cargo test --offline -p datacake-crdt --features rkyv-support --test finding_gate_mismatch 2>&1 | tail -25
exit ${PIPESTATUS[0]}
