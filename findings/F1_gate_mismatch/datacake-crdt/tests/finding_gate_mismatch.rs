//! KNOWN FINDING 1 (C02.G / C04.G): `will_apply` predicts "will apply" for an operation the set then refuses.
use std::time::Duration;

use datacake_crdt::{get_datacake_timestamp, HLCTimestamp, OrSWotSet};

#[test]
fn will_apply_agrees_with_insert_with_source() {
    let base = get_datacake_timestamp();
    // two operations of the same origin node 7, t1 < t2, distinct keys
    let t1 = HLCTimestamp::new(base, 0, 7);
    let t2 = HLCTimestamp::new(base + Duration::from_millis(500), 0, 7);

    let mut set = OrSWotSet::<2>::default();
    assert!(set.insert_with_source(0, 2, t2), "first operation on source 0 applies");

    // the older operation of the same origin arrives on the same source afterwards
    let predicted = set.will_apply(1, t1);
    let applied = set.insert_with_source(0, 1, t1);
    assert_eq!(
        predicted, applied,
        "will_apply said {predicted} but insert_with_source returned {applied}: the keyspace actor has \
         already written the document to storage when the set refuses it"
    );
}

#[test]
fn will_apply_agrees_with_delete_with_source() {
    let base = get_datacake_timestamp();
    let t1 = HLCTimestamp::new(base, 0, 7);
    let t2 = HLCTimestamp::new(base + Duration::from_millis(500), 0, 7);
    let mut set = OrSWotSet::<2>::default();
    assert!(set.insert_with_source(0, 2, t2));
    let predicted = set.will_apply(1, t1);
    let applied = set.delete_with_source(0, 1, t1);
    assert_eq!(predicted, applied);
}
