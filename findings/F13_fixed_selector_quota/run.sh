#!/bin/bash
grep -q "mod finding_selector_quota;" datacake-node/src/lib.rs || printf '\n#[cfg(test)]\nmod finding_selector_quota;\n' >> datacake-node/src/lib.rs
cargo test --offline -p datacake-node --lib finding_selector_quota 2>&1 | tail -25
exit ${PIPESTATUS[0]}
