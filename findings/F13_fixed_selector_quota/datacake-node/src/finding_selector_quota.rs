//! KNOWN FINDING 13 (C15.N6): in `select_n_nodes` a candidate that is rejected (it is the local node, or it was
//! already selected) still consumes one unit of the per-data-centre quota, so fewer than `n` nodes are selected
//! although enough other live nodes exist.  Which selection fails depends on where earlier selections left the
//! rotating cursor.  In-crate test module (the selector is private): run.sh appends
//! `#[cfg(test)] mod finding_selector_quota;` to lib.rs.
use std::borrow::Cow;
use std::collections::BTreeMap;
use std::net::SocketAddr;

use crate::nodes_selector::{Consistency, DCAwareSelector, NodeCycler, NodeSelector, Nodes};

fn addr(i: u16) -> SocketAddr {
    format!("127.0.0.1:{}", 9000 + i).parse().unwrap()
}

#[test]
fn one_then_two_on_a_three_node_data_centre() {
    // one data centre: local node 0 and two other live nodes
    let mut dcs: BTreeMap<Cow<'static, str>, NodeCycler> = BTreeMap::new();
    let nodes: Nodes = [addr(0), addr(1), addr(2)].into_iter().collect();
    dcs.insert(Cow::Borrowed("dc"), NodeCycler::from(nodes));
    let mut selector = DCAwareSelector;

    let one = selector
        .select_nodes(addr(0), "dc", 3, &mut dcs, Consistency::One)
        .expect("one other live node exists");
    assert_eq!(one.len(), 1);

    // two other live nodes exist, so Two must succeed whatever was selected before
    let two = selector.select_nodes(addr(0), "dc", 3, &mut dcs, Consistency::Two);
    let two = two.expect("C15: two other live nodes exist, yet the selection reports NotEnoughNodes");
    assert_eq!(two.len(), 2);
    assert!(!two.contains(&addr(0)));
}

/// Exhaustive version: all layouts up to 4 data centres x 4 nodes, every local position, One/Two/Three/Quorum after
/// every sequence of up to two earlier selections.
#[test]
fn every_layout_every_history() {
    let levels = [
        Consistency::None,
        Consistency::One,
        Consistency::Two,
        Consistency::Three,
        Consistency::Quorum,
        Consistency::LocalQuorum,
        Consistency::All,
        Consistency::EachQuorum,
    ];
    let mut failures = Vec::new();
    let mut checked = 0usize;
    for num_dcs in 1..=4usize {
        let mut sizes = vec![1usize; num_dcs];
        loop {
            let total: usize = sizes.iter().sum();
            let mut all = Vec::new();
            for (d, s) in sizes.iter().enumerate() {
                for i in 0..*s {
                    all.push((d, addr((d * 10 + i) as u16)));
                }
            }
            for (local_dc, local) in all.iter().copied() {
                let mut histories: Vec<Vec<Consistency>> = vec![vec![]];
                for a in levels {
                    histories.push(vec![a]);
                    for b in levels {
                        histories.push(vec![a, b]);
                    }
                }
                for hist in &histories {
                    for (n, level) in [(1usize, Consistency::One), (2, Consistency::Two), (3, Consistency::Three), (total / 2, Consistency::Quorum)] {
                        let mut dcs: BTreeMap<Cow<'static, str>, NodeCycler> = BTreeMap::new();
                        for (d, s) in sizes.iter().enumerate() {
                            let nodes: Nodes = (0..*s).map(|i| addr((d * 10 + i) as u16)).collect();
                            dcs.insert(Cow::Owned(format!("dc-{d}")), NodeCycler::from(nodes));
                        }
                        let mut selector = DCAwareSelector;
                        let dc_name = format!("dc-{local_dc}");
                        for h in hist {
                            let _ = selector.select_nodes(local, &dc_name, total, &mut dcs, *h);
                        }
                        let res = selector.select_nodes(local, &dc_name, total, &mut dcs, level);
                        checked += 1;
                        let others = total - 1;
                        let bad = match &res {
                            Ok(nodes) => {
                                let mut v: Vec<_> = nodes.iter().copied().collect();
                                v.sort();
                                v.dedup();
                                v.len() != nodes.len()
                                    || nodes.contains(&local)
                                    || nodes.iter().any(|a| !all.iter().any(|(_, b)| a == b))
                                    || (level != Consistency::Quorum && nodes.len() != n)
                                    || nodes.len() < n
                            },
                            Err(_) => others >= n,
                        };
                        if bad && failures.len() < 10 {
                            failures.push(format!("layout {sizes:?} local {local} history {hist:?} level {level:?} -> {res:?}"));
                        }
                    }
                }
            }
            // next layout
            let mut i = 0;
            loop {
                if i == num_dcs {
                    break;
                }
                sizes[i] += 1;
                if sizes[i] <= 4 {
                    break;
                }
                sizes[i] = 1;
                i += 1;
            }
            if i == num_dcs {
                break;
            }
        }
    }
    assert!(failures.is_empty(), "C15 violated in {} of the first failures (checked {checked}):\n{}", failures.len(), failures.join("\n"));
}
